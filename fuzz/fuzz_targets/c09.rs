#![no_main]
use libfuzzer_sys::fuzz_target;

// The input is the choice sequence of property C09 (same decoder as the proptest driver and the replay files).
fuzz_target!(|data: &[u8]| {
    rv::engine::fuzz::fuzz_one("C09", data);
});
