use std::time::Duration;

use renet::{Bytes, ChannelConfig, ConnectionConfig, RenetClient, SendType};

const UNORDERED: u8 = 0;
const ORDERED: u8 = 1;
const BUDGET: usize = 5000;

fn config() -> ConnectionConfig {
    let channels = vec![
        ChannelConfig {
            channel_id: UNORDERED,
            max_memory_usage_bytes: BUDGET,
            send_type: SendType::ReliableUnordered {
                resend_time: Duration::from_millis(300),
            },
        },
        ChannelConfig {
            channel_id: ORDERED,
            max_memory_usage_bytes: BUDGET,
            send_type: SendType::ReliableOrdered {
                resend_time: Duration::from_millis(300),
            },
        },
    ];

    ConnectionConfig {
        available_bytes_per_tick: 60_000,
        server_channels_config: channels.clone(),
        client_channels_config: channels,
    }
}

/// Receive side of the reliable channels:
///  - an unordered channel hands buffered messages over in the order they were completed
///    (before: sorted by message id),
///  - partially reassembled messages are accounted for the bytes actually buffered
///    (before: the first slice reserved `num_slices * 1200` bytes), so two interleaved
///    messages that together fit the channel budget no longer exhaust it.
#[test]
fn receive_side_buffering() {
    // `sender` sends on the client channels, `receiver` receives them as the server channels:
    // both lists are the same.
    let mut sender = RenetClient::new(config());
    let mut receiver = RenetClient::new(config());

    // Unordered: three messages in three packets, delivered as 2, 0, 1 before the application drains.
    let mut packets = vec![];
    for i in 0..3u8 {
        sender.send_message(UNORDERED, vec![i; 10]);
        let mut sent = sender.get_packets_to_send();
        assert_eq!(sent.len(), 1);
        packets.push(sent.remove(0));
    }
    for i in [2, 0, 1] {
        receiver.process_packet(&packets[i]);
    }
    // A network duplicate changes nothing
    receiver.process_packet(&packets[0]);

    let mut received = vec![];
    while let Some(message) = receiver.receive_message(UNORDERED) {
        received.push(message);
    }
    let expected: Vec<Bytes> = [2u8, 0, 1].iter().map(|&i| Bytes::from(vec![i; 10])).collect();
    assert_eq!(received, expected, "unordered messages are handed over in completion order");

    // Ordered: two messages of 3 slices each, 4900 bytes together, within the budget of 5000.
    let message_a: Bytes = (0..2450u32).map(|i| (i % 251) as u8).collect::<Vec<u8>>().into();
    let message_b: Bytes = (0..2450u32).map(|i| (i % 241) as u8).collect::<Vec<u8>>().into();
    sender.send_message(ORDERED, message_a.clone());
    sender.send_message(ORDERED, message_b.clone());
    assert!(!sender.is_disconnected());

    let packets = sender.get_packets_to_send();
    // A0 A1 A2 B0 B1 B2
    assert_eq!(packets.len(), 6);
    // The slices of both messages interleave on the way, the second message even completes first
    for i in [0, 3, 4, 5, 1, 2] {
        receiver.process_packet(&packets[i]);
        assert_eq!(receiver.disconnect_reason(), None, "after packet {i}");
    }

    assert_eq!(receiver.receive_message(ORDERED), Some(message_a));
    assert_eq!(receiver.receive_message(ORDERED), Some(message_b));
    assert_eq!(receiver.receive_message(ORDERED), None);

    // Everything is acknowledged, the sender gets its whole budget back
    for packet in receiver.get_packets_to_send() {
        sender.process_packet(&packet);
    }
    assert_eq!(sender.channel_available_memory(UNORDERED), BUDGET);
    assert_eq!(sender.channel_available_memory(ORDERED), BUDGET);
    assert!(!sender.is_disconnected() && !receiver.is_disconnected());
}
