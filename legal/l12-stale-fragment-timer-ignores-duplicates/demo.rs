//! Demonstration of the changed stale-fragment policy of the unreliable receive channel.
//!
//! Changed library: a duplicate of a slice that is already held is not progress, so an
//! incomplete sliced message is discarded 3 s after the last *new* slice. Its reservation
//! is then free for the next sliced message.
//! Original library: any slice of the message, duplicates included, restarts the 3 s, so
//! the reservation is still held and the next sliced message is dropped for lack of memory.
//!
//! PASSES with the change, FAILS on the original code.

use std::time::Duration;

use renet::{Bytes, ChannelConfig, ConnectionConfig, RenetClient, RenetServer, SendType};

const SLICE_SIZE: usize = 1200;

fn config() -> ConnectionConfig {
    let channels = vec![ChannelConfig {
        channel_id: 0,
        // Room for the reservation of one two-slice message (2400), not for two (4800).
        max_memory_usage_bytes: 3 * SLICE_SIZE,
        send_type: SendType::Unreliable,
    }];
    ConnectionConfig {
        available_bytes_per_tick: 60_000,
        server_channels_config: channels.clone(),
        client_channels_config: channels,
    }
}

#[test]
fn duplicate_slices_do_not_keep_a_stale_fragment_alive() {
    let mut server = RenetServer::new(config());
    let mut client = RenetClient::new(config());
    let client_id = 7;
    server.add_connection(client_id);

    // Message A: two slices. Only its first slice ever reaches the client.
    let message_a = Bytes::from(vec![0xA; SLICE_SIZE + 100]);
    server.send_message(client_id, 0, message_a);
    let packets_a = server.get_packets_to_send(client_id).unwrap();
    assert_eq!(packets_a.len(), 2, "two slice packets");
    let first_slice_of_a = packets_a.iter().max_by_key(|p| p.len()).unwrap().clone();
    assert!(first_slice_of_a.len() > SLICE_SIZE);

    // t = 0 s: first slice of A arrives (real progress).
    client.process_packet(&first_slice_of_a);
    assert!(client.receive_message(0).is_none());

    // t = 2 s: the network delivers the very same datagram again (no progress).
    client.update(Duration::from_secs(2));
    client.process_packet(&first_slice_of_a);
    assert!(client.receive_message(0).is_none());

    // t = 3.5 s: 3.5 s since the last new slice, 1.5 s since the duplicate.
    client.update(Duration::from_millis(1500));

    // Message B: two slices, all delivered. It needs the memory A's fragment reserved.
    let message_b = Bytes::from(vec![0xB; SLICE_SIZE + 100]);
    server.send_message(client_id, 0, message_b.clone());
    let packets_b = server.get_packets_to_send(client_id).unwrap();
    assert_eq!(packets_b.len(), 2);
    for packet in packets_b.iter() {
        client.process_packet(packet);
    }

    assert_eq!(client.disconnect_reason(), None);
    let received = client.receive_message(0);
    assert_eq!(
        received,
        Some(message_b),
        "the fragment of A got no new slice for 3.5 s, its reservation must be free for B"
    );
    assert!(client.receive_message(0).is_none());
}
