//! Demonstrates the low-level behaviour of the reworked connection table of `RenetServer`:
//!  * connections are visited in ascending client id order,
//!  * a disconnection is reported ahead of the queued connections of *other* client ids
//!    (events of one id keep their order),
//!  * a disconnected connection gives back its unreachable state at once (`verif_hooks` only).

use renet::{ClientId, ConnectionConfig, DisconnectReason, RenetServer, ServerEvent};

fn drain(server: &mut RenetServer) -> Vec<ServerEvent> {
    let mut events = Vec::new();
    while let Some(event) = server.get_event() {
        events.push(event);
    }
    events
}

fn connected(client_id: ClientId) -> ServerEvent {
    ServerEvent::ClientConnected { client_id }
}

fn disconnected(client_id: ClientId, reason: DisconnectReason) -> ServerEvent {
    ServerEvent::ClientDisconnected { client_id, reason }
}

#[test]
fn connections_are_visited_in_ascending_id_order() {
    let mut server = RenetServer::new(ConnectionConfig::default());
    let scrambled: [ClientId; 16] = [907, 3, u64::MAX, 41, 5_000_000_000, 12, 77, 0, 650, 8, 1 << 40, 99, 23, 1, 300, 64];
    for id in scrambled {
        server.add_connection(id);
    }

    let mut sorted = scrambled.to_vec();
    sorted.sort_unstable();
    assert_eq!(server.clients_id(), sorted);

    for id in [650, 3, u64::MAX, 64, 12] {
        server.disconnect(id);
    }
    assert_eq!(server.disconnections_id(), vec![3, 12, 64, 650, u64::MAX]);

    let remaining: Vec<ClientId> = sorted
        .iter()
        .copied()
        .filter(|id| ![650, 3, u64::MAX, 64, 12].contains(id))
        .collect();
    assert_eq!(server.clients_id(), remaining);
}

#[test]
fn disconnection_overtakes_queued_connections_of_other_ids() {
    let mut server = RenetServer::new(ConnectionConfig::default());
    server.add_connection(1);
    server.add_connection(2);
    assert_eq!(drain(&mut server), vec![connected(1), connected(2)]);

    // 3 joins, then 2 leaves: the application hears about the leaver first.
    server.add_connection(3);
    server.remove_connection(2);
    assert_eq!(drain(&mut server), vec![disconnected(2, DisconnectReason::Transport), connected(3)]);

    // Events of one id are never reordered: the disconnection of 5 stays behind its own connection,
    // but still passes the connections of 6 and 7; the second connection of 5 stays last.
    server.add_connection(4);
    server.add_connection(5);
    server.add_connection(6);
    server.disconnect(5);
    server.remove_connection(5);
    server.add_connection(7);
    server.remove_connection(1);
    server.add_connection(5);
    assert_eq!(
        drain(&mut server),
        vec![
            disconnected(1, DisconnectReason::Transport),
            connected(4),
            connected(5),
            disconnected(5, DisconnectReason::DisconnectedByServer),
            connected(6),
            connected(7),
            connected(5),
        ]
    );
    assert_eq!(server.clients_id(), vec![3, 4, 5, 6, 7]);
}

#[cfg(feature = "verif_hooks")]
#[test]
fn disconnected_connection_gives_back_unreachable_state_at_once() {
    use bytes::Bytes;
    use renet::{DefaultChannel, RenetClient};

    let mut server = RenetServer::new(ConnectionConfig::default());
    let mut client = RenetClient::new(ConnectionConfig::default());
    client.set_connected();
    server.add_connection(9);

    // The client submits messages the server application never reads,
    // plus the first slices only of an unreliable sliced message.
    for _ in 0..5 {
        client.send_message(DefaultChannel::ReliableOrdered, Bytes::from(vec![7u8; 300]));
    }
    client.send_message(DefaultChannel::Unreliable, Bytes::from(vec![8u8; 5000]));
    for packet in client.get_packets_to_send() {
        if let Ok(renet::verif::Packet::UnreliableSlice { slice, .. }) = renet::verif::decode_packet(&packet) {
            if slice.slice_index >= 3 {
                continue;
            }
        }
        server.process_packet_from(&packet, 9).unwrap();
    }

    // The server has something in flight too.
    server.send_message(9, DefaultChannel::ReliableOrdered, Bytes::from(vec![1u8; 100]));
    assert!(!server.get_packets_to_send(9).unwrap().is_empty());

    let reliable: u8 = DefaultChannel::ReliableOrdered.into();
    let unreliable: u8 = DefaultChannel::Unreliable.into();
    let connection = server.verif_connection(9).unwrap();
    let (held, max_reliable) = connection.verif_receive_memory(reliable).unwrap();
    assert_eq!(held, 1500);
    assert_eq!(connection.verif_receive_partial_messages(unreliable), Some(1));
    assert!(!connection.verif_pending_acks().is_empty());
    assert!(!connection.verif_sent_packets().is_empty());
    let send_memory = connection.verif_send_memory(reliable).unwrap();
    assert_eq!(send_memory.0, 100);

    server.disconnect(9);

    let connection = server.verif_connection(9).unwrap();
    assert_eq!(connection.disconnect_reason(), Some(DisconnectReason::DisconnectedByServer));
    // Receive side, owed acknowledgements and sent-packet records are gone ...
    assert_eq!(connection.verif_receive_memory(reliable), Some((0, max_reliable)));
    assert_eq!(connection.verif_receive_memory(unreliable).unwrap().0, 0);
    assert_eq!(connection.verif_receive_partial_messages(unreliable), Some(0));
    assert!(connection.verif_pending_acks().is_empty());
    assert!(connection.verif_sent_packets().is_empty());
    // ... while the send side still accounts the unacknowledged message.
    assert_eq!(connection.verif_send_memory(reliable), Some(send_memory));
    assert_eq!(connection.verif_unacked(reliable).unwrap().len(), 1);

    // The same happens when the peer's packet is what disconnects the connection.
    server.add_connection(10);
    let mut other = RenetClient::new(ConnectionConfig::default());
    other.set_connected();
    other.send_message(DefaultChannel::ReliableUnordered, Bytes::from(vec![3u8; 10]));
    for packet in other.get_packets_to_send() {
        server.process_packet_from(&packet, 10).unwrap();
    }
    assert_eq!(server.verif_connection(10).unwrap().verif_pending_acks(), vec![0..1]);
    server.process_packet_from(&[0xff, 0xff, 0xff], 10).unwrap();
    let connection = server.verif_connection(10).unwrap();
    assert!(connection.is_disconnected());
    assert!(connection.verif_pending_acks().is_empty());
    let unordered: u8 = DefaultChannel::ReliableUnordered.into();
    assert_eq!(connection.verif_receive_memory(unordered).unwrap().0, 0);
}
