//! Observable low-level differences of the send-side packing change
//! (renet/src/channel/reliable.rs and renet/src/channel/unreliable.rs).
//!
//! Only the public API is used: the packets are looked at as raw bytes,
//! the first byte of a renet packet is its type:
//! 0 SmallReliable, 1 SmallUnreliable, 2 ReliableSlice, 3 UnreliableSlice, 4 Ack.

use std::time::Duration;

use renet::{ChannelConfig, ConnectionConfig, RenetClient, SendType};

const RESEND_TIME: Duration = Duration::from_millis(100);

fn config(available_bytes_per_tick: u64) -> ConnectionConfig {
    let channels = vec![
        ChannelConfig {
            channel_id: 0,
            max_memory_usage_bytes: 1024 * 1024,
            send_type: SendType::Unreliable,
        },
        ChannelConfig {
            channel_id: 1,
            max_memory_usage_bytes: 1024 * 1024,
            send_type: SendType::ReliableOrdered { resend_time: RESEND_TIME },
        },
    ];

    ConnectionConfig {
        available_bytes_per_tick,
        server_channels_config: channels.clone(),
        client_channels_config: channels,
    }
}

fn packet_types(packets: &[Vec<u8>]) -> Vec<u8> {
    packets.iter().map(|packet| packet[0]).collect()
}

fn deliver(packets: Vec<Vec<u8>>, to: &mut RenetClient) {
    for packet in packets {
        assert!(packet.len() <= 1300);
        to.process_packet(&packet);
    }
}

fn drain(connection: &mut RenetClient, channel_id: u8) -> Vec<Vec<u8>> {
    let mut messages = vec![];
    while let Some(message) = connection.receive_message(channel_id) {
        messages.push(message.to_vec());
    }
    messages
}

/// Unreliable channel: packets leave in the order the messages were sent.
/// Before: [slice, slice, slice, small{a, c}], the receiver got B, a, c.
#[test]
fn unreliable_packets_keep_send_order() {
    let mut sender = RenetClient::new(config(60_000));
    let mut receiver = RenetClient::new(config(60_000));

    let a = vec![1u8; 10];
    let b = vec![2u8; 2500];
    let c = vec![3u8; 20];
    sender.send_message(0, a.clone());
    sender.send_message(0, b.clone());
    sender.send_message(0, c.clone());

    let packets = sender.get_packets_to_send();
    assert_eq!(packet_types(&packets), vec![1, 3, 3, 3, 1]);

    deliver(packets, &mut receiver);
    assert_eq!(drain(&mut receiver, 0), vec![a, b, c]);
}

/// A small message that fills a packet by itself is not preceded by an empty packet anymore.
#[test]
fn no_empty_small_packets() {
    let mut sender = RenetClient::new(config(60_000));
    sender.send_message(0, vec![7u8; 1200]);
    sender.send_message(1, vec![8u8; 1200]);

    let packets = sender.get_packets_to_send();
    // Before: [1 (empty), 1, 0 (empty), 0]
    assert_eq!(packet_types(&packets), vec![1, 0]);
}

/// Reliable channel: small messages are packed first-fit in the open packets.
/// Before (a packet was closed as soon as one message did not fit): [700], [700, 400], [400].
#[test]
fn reliable_small_messages_first_fit() {
    let mut sender = RenetClient::new(config(60_000));
    let mut receiver = RenetClient::new(config(60_000));

    let messages: Vec<Vec<u8>> = [700usize, 700, 400, 400]
        .iter()
        .enumerate()
        .map(|(i, &len)| vec![i as u8; len])
        .collect();
    for message in messages.iter() {
        sender.send_message(1, message.clone());
    }

    let packets = sender.get_packets_to_send();
    assert_eq!(packet_types(&packets), vec![0, 0]);
    assert!(packets.iter().all(|packet| packet.len() > 1100));

    // Still delivered in order
    deliver(packets, &mut receiver);
    assert_eq!(drain(&mut receiver, 1), messages);
}

/// Reliable channel: what is left of the tick budget is spent on the short last slice.
/// Before: a slice was only sent while at least SLICE_SIZE (1200) bytes of budget were left,
/// the 100 bytes slice had to wait for the next tick.
#[test]
fn reliable_last_slice_uses_remaining_budget() {
    let mut sender = RenetClient::new(config(1300));
    let mut receiver = RenetClient::new(config(1300));

    let message = vec![9u8; 1300];
    sender.send_message(1, message.clone());

    let packets = sender.get_packets_to_send();
    assert_eq!(packet_types(&packets), vec![2, 2]);
    let payload_bytes: usize = packets.iter().map(|packet| packet.len()).sum();
    assert!(payload_bytes >= 1300);

    deliver(packets, &mut receiver);
    assert_eq!(drain(&mut receiver, 1), vec![message]);

    // Nothing left for the next tick
    sender.update(Duration::from_millis(10));
    assert!(sender.get_packets_to_send().is_empty());
}

/// Reliable channel: retransmissions leave before first transmissions.
/// Before: [slice, slice, small{0}] (the small packet was always closed last).
#[test]
fn reliable_retransmissions_first() {
    let mut sender = RenetClient::new(config(60_000));

    sender.send_message(1, vec![1u8; 50]);
    assert_eq!(packet_types(&sender.get_packets_to_send()), vec![0]);

    // The small message is due again, a big one is sent for the first time
    sender.update(RESEND_TIME);
    sender.send_message(1, vec![2u8; 2000]);
    assert_eq!(packet_types(&sender.get_packets_to_send()), vec![0, 2, 2]);
}
