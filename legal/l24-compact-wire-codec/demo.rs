//! Demonstrates the revised message-layer wire encoding through the public API only:
//!  * the message count of SmallReliable / SmallUnreliable packets is a varint (1 byte for < 64
//!    messages) instead of a fixed 2-byte integer, so such packets are one byte shorter;
//!  * the ranges of an Ack packet are written oldest first, anchored at the START of the OLDEST
//!    range and followed by (gap, size) pairs going up, instead of being anchored at the END of
//!    the NEWEST range and going down.
//! Both encodings still decode to the same packets, so traffic keeps flowing.

use bytes::Bytes;
use renet::{ConnectionConfig, DefaultChannel, RenetClient};

#[test]
fn small_packets_carry_a_varint_message_count() {
    let mut client = RenetClient::new(ConnectionConfig::default());
    let reliable: u8 = DefaultChannel::ReliableOrdered.into();
    let unreliable: u8 = DefaultChannel::Unreliable.into();

    client.send_message(DefaultChannel::ReliableOrdered, Bytes::from_static(b"abc"));
    let packets = client.get_packets_to_send();
    assert_eq!(packets.len(), 1);
    // type 0, sequence 0, channel, count 1 (one byte), message id 0, length 3, payload
    assert_eq!(packets[0], vec![0, 0, reliable, 1, 0, 3, b'a', b'b', b'c']);

    let mut client = RenetClient::new(ConnectionConfig::default());
    client.send_message(DefaultChannel::Unreliable, Bytes::from_static(b"xyz"));
    let packets = client.get_packets_to_send();
    assert_eq!(packets.len(), 1);
    // type 1, sequence 0, channel, count 1 (one byte), length 3, payload
    assert_eq!(packets[0], vec![1, 0, unreliable, 1, 3, b'x', b'y', b'z']);

    // 64 messages need a two-byte varint: 0x40 0x40.
    let mut client = RenetClient::new(ConnectionConfig::default());
    for _ in 0..64 {
        client.send_message(DefaultChannel::Unreliable, Bytes::from_static(b"q"));
    }
    let packets = client.get_packets_to_send();
    assert_eq!(packets.len(), 1);
    assert_eq!(&packets[0][..5], &[1, 0, unreliable, 0x40, 0x40]);
    assert_eq!(packets[0].len(), 5 + 64 * 2);
}

#[test]
fn ack_ranges_are_written_oldest_first() {
    let mut sender = RenetClient::new(ConnectionConfig::default());
    let mut receiver = RenetClient::new(ConnectionConfig::default());

    // One packet per flush: sequences 0..=10. Sequence 0 carries a reliable message.
    let mut sent: Vec<Vec<u8>> = Vec::new();
    sender.send_message(DefaultChannel::ReliableOrdered, Bytes::from_static(b"keep"));
    for i in 0..11u8 {
        if i > 0 {
            sender.send_message(DefaultChannel::Unreliable, vec![i]);
        }
        let mut packets = sender.get_packets_to_send();
        assert_eq!(packets.len(), 1);
        sent.push(packets.pop().unwrap());
    }

    // The receiver only sees sequences 0, 1 and 10: received set {0, 1, 10} = [0..2, 10..11].
    receiver.process_packet(&sent[0]);
    receiver.process_packet(&sent[1]);
    receiver.process_packet(&sent[10]);
    assert_eq!(receiver.disconnect_reason(), None);
    assert_eq!(receiver.receive_message(DefaultChannel::ReliableOrdered).unwrap(), "keep");

    let acks = receiver.get_packets_to_send();
    assert_eq!(acks.len(), 1);
    // type 4, sequence 0,
    // start of the oldest range (0), its size - 1 (1), one more range,
    // gap - 1 up to the next range (10 - 2 - 1 = 7), its size - 1 (0).
    // The previous encoding was [4, 0, 10, 0, 1, 7, 1]: newest end first, going down.
    assert_eq!(acks[0], vec![4, 0, 0, 1, 1, 7, 0]);

    // The sender understands it: the reliable message that travelled in packet 0 is released.
    let reliable_budget = sender.channel_available_memory(DefaultChannel::ReliableOrdered);
    sender.process_packet(&acks[0]);
    assert_eq!(sender.disconnect_reason(), None);
    assert_eq!(sender.channel_available_memory(DefaultChannel::ReliableOrdered), reliable_budget + 4);
}
