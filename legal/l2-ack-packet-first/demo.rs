// Demonstration of the "ack packet first" change in RenetClient::get_packets_to_send.
//
// PASSES with the change applied, FAILS on the original code (where the ack packet is
// the last packet of the batch and carries the highest sequence number of the tick).
use bytes::Bytes;
use renet::{ConnectionConfig, DefaultChannel, RenetClient};

const ACK_PACKET_TYPE: u8 = 4;
const SMALL_RELIABLE_PACKET_TYPE: u8 = 0;

#[test]
fn ack_packet_is_first_in_batch_and_takes_the_first_sequence() {
    let mut a = RenetClient::new(ConnectionConfig::default());
    let mut b = RenetClient::new(ConnectionConfig::default());

    // a -> b : one reliable message, so that b has something to acknowledge.
    a.send_message(DefaultChannel::ReliableOrdered, Bytes::from_static(b"ping"));
    let packets = a.get_packets_to_send();
    assert_eq!(packets.len(), 1);
    for packet in packets.iter() {
        b.process_packet(packet);
    }
    assert_eq!(b.receive_message(DefaultChannel::ReliableOrdered).unwrap(), "ping");

    // b now has a pending ack and a message of its own to send in the same tick.
    b.send_message(DefaultChannel::ReliableOrdered, Bytes::from_static(b"pong"));
    let packets = b.get_packets_to_send();
    assert_eq!(packets.len(), 2, "one data packet and one ack packet");

    // Same set of packets as before the change (one ack, one data packet)...
    let mut kinds: Vec<u8> = packets.iter().map(|p| p[0]).collect();
    kinds.sort();
    assert_eq!(kinds, vec![SMALL_RELIABLE_PACKET_TYPE, ACK_PACKET_TYPE]);

    // ...but the ack now leads the batch and owns the first sequence number of the tick.
    // Wire format: [type u8][sequence varint]...; sequences 0 and 1 are one-byte varints.
    assert_eq!(packets[0][0], ACK_PACKET_TYPE, "ack packet must be first in the batch");
    assert_eq!(packets[0][1], 0, "ack packet takes the first sequence number");
    assert_eq!(packets[1][0], SMALL_RELIABLE_PACKET_TYPE);
    assert_eq!(packets[1][1], 1, "data packet takes the following sequence number");

    // Nothing else changed for the peer: it gets the message and the acknowledgement.
    for packet in packets.iter() {
        a.process_packet(packet);
    }
    assert_eq!(a.receive_message(DefaultChannel::ReliableOrdered).unwrap(), "pong");
    assert_eq!(a.disconnect_reason(), None);
    // The acked message is released: the channel offers its whole budget again.
    let fresh = RenetClient::new(ConnectionConfig::default());
    assert_eq!(
        a.channel_available_memory(DefaultChannel::ReliableOrdered),
        fresh.channel_available_memory(DefaultChannel::ReliableOrdered)
    );
}
