// Demonstration of the changed decode order of slice packets (renet/src/packet.rs).
//
// PASSES with the change applied, FAILS on the original code.
//
// A slice packet that is both truncated (the announced payload length is longer than what
// arrived) and announces an invalid slice count (0, or above 1_000_000):
//   original: the slice count is checked before the payload is read
//             -> DisconnectReason::PacketDeserialization(InvalidNumSlices)
//   changed : the whole frame is read before anything is validated
//             -> DisconnectReason::PacketDeserialization(BufferTooShort)
// Complete frames are classified exactly as before.

use renet::{ConnectionConfig, DisconnectReason, RenetClient, RenetServer, ServerEvent};

fn slice_packet(packet_type: u8, num_slices_varint: &[u8], announced_len: u8, payload: &[u8]) -> Vec<u8> {
    let mut p = vec![
        packet_type, // 2 = ReliableSlice, 3 = UnreliableSlice
        0,           // sequence (varint)
        0,           // channel id
        0,           // message id (varint)
        0,           // slice index (varint)
    ];
    p.extend_from_slice(num_slices_varint);
    assert!(announced_len < 64, "one byte varint");
    p.push(announced_len);
    p.extend_from_slice(payload);
    p
}

fn client_reason(packet: &[u8]) -> String {
    let mut client = RenetClient::new(ConnectionConfig::default());
    client.set_connected();
    client.process_packet(packet);
    let reason = client.disconnect_reason().expect("hostile packet must disconnect the client");
    assert!(matches!(reason, DisconnectReason::PacketDeserialization(_)), "{reason:?}");
    reason.to_string()
}

fn server_reason(packet: &[u8]) -> String {
    let mut server = RenetServer::new(ConnectionConfig::default());
    server.add_connection(7);
    server.add_connection(8);
    assert!(matches!(server.get_event(), Some(ServerEvent::ClientConnected { client_id: 7 })));
    assert!(matches!(server.get_event(), Some(ServerEvent::ClientConnected { client_id: 8 })));

    server.process_packet_from(packet, 7).unwrap();
    let reason = server.disconnect_reason(7).expect("hostile packet must disconnect that client");
    // The other connection is untouched.
    assert!(server.disconnect_reason(8).is_none());
    reason.to_string()
}

const TOO_SHORT: &str = "failed to deserialize packet: buffer too short";
const INVALID_NUM_SLICES: &str = "failed to deserialize packet: invalid number of slices";

#[test]
fn truncated_slice_with_invalid_count_is_reported_as_truncated() {
    // varint 0x80 0x1e 0x84 0x81 = 2_000_001 (4 byte varint, prefix 0b10)
    let two_million_one: [u8; 4] = [0x80, 0x1e, 0x84, 0x81];

    for packet_type in [2u8, 3u8] {
        // num_slices = 0, announces 5 payload bytes, carries 2.
        let zero_truncated = slice_packet(packet_type, &[0], 5, &[1, 2]);
        // num_slices = 2_000_001, announces 5 payload bytes, carries 2.
        let huge_truncated = slice_packet(packet_type, &two_million_one, 5, &[1, 2]);

        for packet in [&zero_truncated, &huge_truncated] {
            // Original code answers INVALID_NUM_SLICES here.
            assert_eq!(client_reason(packet), TOO_SHORT, "client, packet {packet:?}");
            assert_eq!(server_reason(packet), TOO_SHORT, "server, packet {packet:?}");
        }
    }
}

#[test]
fn complete_frames_are_classified_as_before() {
    let two_million_one: [u8; 4] = [0x80, 0x1e, 0x84, 0x81];

    for packet_type in [2u8, 3u8] {
        let zero_complete = slice_packet(packet_type, &[0], 2, &[1, 2]);
        let huge_complete = slice_packet(packet_type, &two_million_one, 2, &[1, 2]);
        for packet in [&zero_complete, &huge_complete] {
            assert_eq!(client_reason(packet), INVALID_NUM_SLICES);
            assert_eq!(server_reason(packet), INVALID_NUM_SLICES);
        }

        // Valid count, truncated payload.
        let truncated = slice_packet(packet_type, &[1], 5, &[1, 2]);
        assert_eq!(client_reason(&truncated), TOO_SHORT);
    }

    // A reliable slice with an empty payload and a valid count is still an empty slice,
    // and with an invalid count the count is still what is reported.
    let empty = slice_packet(2, &[1], 0, &[]);
    assert_eq!(client_reason(&empty), "failed to deserialize packet: invalid slice, slices cannot be empty");
    let empty_zero = slice_packet(2, &[0], 0, &[]);
    assert_eq!(client_reason(&empty_zero), INVALID_NUM_SLICES);

    // A well-formed single-slice message on the default reliable channel (id 1... see below) is delivered.
    let mut client = RenetClient::new(ConnectionConfig::default());
    client.set_connected();
    let mut ok = slice_packet(2, &[1], 3, &[9, 8, 7]);
    ok[2] = 2; // channel 2 = ReliableOrdered in the default configuration
    client.process_packet(&ok);
    assert!(client.disconnect_reason().is_none());
    assert_eq!(client.receive_message(2u8).as_deref(), Some(&[9u8, 8, 7][..]));
}
