//! Demonstrates the wire-level difference of the "fixed width sequence" change, through the public API only.
//!
//! With the change every encrypted netcode datagram carries its sequence in 8 bytes (prefix byte high nibble = 8)
//! and the unencrypted connection request starts with a zero prefix byte. The unchanged tree writes the sequence
//! with its minimal number of bytes (1 byte for a fresh session) and starts the request with 0x10.

use std::net::SocketAddr;
use std::time::Duration;

use renetcode::{
    ClientAuthentication, ConnectToken, NetcodeClient, NetcodeServer, ServerAuthentication, ServerConfig, ServerResult,
    NETCODE_MAX_PACKET_BYTES, NETCODE_MAX_PAYLOAD_BYTES,
};

const MAC_BYTES: usize = 16;
const PROTOCOL_ID: u64 = 7;
const CLIENT_ID: u64 = 42;

fn server_addr() -> SocketAddr {
    "127.0.0.1:5000".parse().unwrap()
}

fn client_addr() -> SocketAddr {
    "127.0.0.1:40000".parse().unwrap()
}

/// Runs a complete handshake, returns the connected pair and every handshake datagram as (from_client, bytes).
fn connect() -> (NetcodeClient, NetcodeServer, Vec<(bool, Vec<u8>)>) {
    let private_key = [9u8; 32];
    let mut server = NetcodeServer::new(ServerConfig {
        current_time: Duration::ZERO,
        max_clients: 4,
        protocol_id: PROTOCOL_ID,
        public_addresses: vec![server_addr()],
        authentication: ServerAuthentication::Secure { private_key },
    });
    let token = ConnectToken::generate(Duration::ZERO, PROTOCOL_ID, 30, CLIENT_ID, 15, vec![server_addr()], None, &private_key).unwrap();
    let mut client = NetcodeClient::new(Duration::ZERO, ClientAuthentication::Secure { connect_token: token }).unwrap();

    let mut log = Vec::new();
    let tick = Duration::from_millis(100);
    for _ in 0..20 {
        server.update(tick);
        let out = client.update(tick).map(|(packet, _)| packet.to_vec());
        if let Some(mut datagram) = out {
            log.push((true, datagram.clone()));
            let reply = match server.process_packet(client_addr(), &mut datagram) {
                ServerResult::PacketToSend { payload, .. } => Some(payload.to_vec()),
                ServerResult::ClientConnected { payload, .. } => Some(payload.to_vec()),
                _ => None,
            };
            if let Some(mut reply) = reply {
                log.push((false, reply.clone()));
                client.process_packet(&mut reply);
            }
        }
        if client.is_connected() && server.is_client_connected(CLIENT_ID) {
            break;
        }
    }
    assert!(client.is_connected());
    assert!(server.is_client_connected(CLIENT_ID));
    (client, server, log)
}

#[test]
fn connection_request_starts_with_a_zero_prefix_byte() {
    let (_, _, log) = connect();
    let (from_client, request) = &log[0];
    assert!(*from_client);
    // prefix + version info + protocol id + expire timestamp + xnonce + private token
    assert_eq!(request.len(), 1 + 13 + 8 + 8 + 24 + 1024);
    assert_eq!(request[0], 0x00, "request prefix byte is the bare packet type");
}

#[test]
fn every_encrypted_datagram_carries_an_eight_byte_sequence() {
    let (mut client, mut server, log) = connect();

    // Handshake datagrams after the request: challenge (type 2), response (type 3), keep-alive (type 4)
    let mut kinds = Vec::new();
    for (_, datagram) in log.iter().skip(1) {
        assert!(datagram.len() <= NETCODE_MAX_PACKET_BYTES);
        assert_eq!(datagram[0] >> 4, 8, "sequence length announced by prefix byte {:#04x}", datagram[0]);
        let kind = datagram[0] & 0xF;
        let body = match kind {
            2 | 3 => 8 + 300,
            4 => 8,
            other => panic!("unexpected handshake packet type {other}"),
        };
        assert_eq!(datagram.len(), 1 + 8 + body + MAC_BYTES);
        kinds.push(kind);
    }
    assert!(kinds.contains(&3), "the client's response (its sequence is below 256) was logged: {kinds:?}");

    // Payloads of a fresh session (sequence numbers below 256) in both directions, every size class
    for len in [0usize, 1, 100, NETCODE_MAX_PAYLOAD_BYTES] {
        let payload = vec![0xABu8; len];

        let (_, datagram) = client.generate_payload_packet(&payload).unwrap();
        assert_eq!(datagram[0], 0x85);
        assert_eq!(datagram.len(), 1 + 8 + len + MAC_BYTES);
        assert!(datagram.len() <= NETCODE_MAX_PACKET_BYTES);
        let mut datagram = datagram.to_vec();
        match server.process_packet(client_addr(), &mut datagram) {
            ServerResult::Payload { client_id, payload: got } => {
                assert_eq!(client_id, CLIENT_ID);
                assert_eq!(got, &payload[..]);
            }
            other => panic!("payload not surfaced by the server: {other:?}"),
        }

        let (_, datagram) = server.generate_payload_packet(CLIENT_ID, &payload).unwrap();
        assert_eq!(datagram[0], 0x85);
        assert_eq!(datagram.len(), 1 + 8 + len + MAC_BYTES);
        let mut datagram = datagram.to_vec();
        assert_eq!(client.process_packet(&mut datagram), Some(&payload[..]));
    }

    // The disconnect packet of a young session has the same fixed header
    let (_, datagram) = client.disconnect().unwrap();
    assert_eq!(datagram[0], 0x86);
    assert_eq!(datagram.len(), 1 + 8 + MAC_BYTES);
}
