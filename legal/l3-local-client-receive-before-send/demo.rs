// Demonstration of the changed exchange order inside `RenetServer::process_local_client`.
//
// PASSES with the change (client -> server first, then server -> client),
// FAILS on the original code (server -> client first, then client -> server).
use bytes::Bytes;
use renet::{ClientId, ConnectionConfig, DefaultChannel, RenetServer, ServerEvent};

#[test]
fn local_client_exchange_takes_in_client_packets_before_flushing_the_server() {
    let mut server = RenetServer::new(ConnectionConfig::default());
    let client_id: ClientId = 7;
    let mut client = server.new_local_client(client_id);
    assert_eq!(server.get_event(), Some(ServerEvent::ClientConnected { client_id }));

    let client_budget = client.channel_available_memory(DefaultChannel::ReliableOrdered);
    let server_budget = server.channel_available_memory(client_id, DefaultChannel::ReliableOrdered);

    // 1. A reliable message from the client is acknowledged within the very same exchange:
    //    the server's packets of that call already carry the ack.
    let up = Bytes::from(vec![0xAB; 100]);
    client.send_message(DefaultChannel::ReliableOrdered, up.clone());
    assert_eq!(client.channel_available_memory(DefaultChannel::ReliableOrdered), client_budget - 100);

    server.process_local_client(client_id, &mut client).unwrap();

    assert_eq!(server.receive_message(client_id, DefaultChannel::ReliableOrdered), Some(up));
    assert_eq!(
        client.channel_available_memory(DefaultChannel::ReliableOrdered),
        client_budget,
        "the client's message must already be acknowledged after one exchange"
    );

    // 2. Conversely a reliable message from the server is delivered by one exchange, but its
    //    acknowledgement only travels back with the next one.
    let down = Bytes::from(vec![0xCD; 100]);
    server.send_message(client_id, DefaultChannel::ReliableOrdered, down.clone());

    server.process_local_client(client_id, &mut client).unwrap();

    assert_eq!(client.receive_message(DefaultChannel::ReliableOrdered), Some(down));
    assert_eq!(
        server.channel_available_memory(client_id, DefaultChannel::ReliableOrdered),
        server_budget - 100,
        "the ack for the server's message has not travelled yet"
    );

    server.process_local_client(client_id, &mut client).unwrap();

    assert_eq!(server.channel_available_memory(client_id, DefaultChannel::ReliableOrdered), server_budget);
    assert_eq!(client.channel_available_memory(DefaultChannel::ReliableOrdered), client_budget);
    assert!(server.is_connected(client_id));
    assert!(client.is_connected());
}

#[test]
fn unknown_local_client_is_left_untouched() {
    // Same in both versions: an unknown id fails before anything is taken out of the client.
    let mut server = RenetServer::new(ConnectionConfig::default());
    let mut client = server.new_local_client(1);
    let budget = client.channel_available_memory(DefaultChannel::Unreliable);
    client.send_message(DefaultChannel::Unreliable, Bytes::from_static(b"hello"));

    assert!(server.process_local_client(2, &mut client).is_err());
    // The unreliable message is still queued (it would be gone had the client been flushed).
    assert_eq!(client.channel_available_memory(DefaultChannel::Unreliable), budget - 5);

    server.process_local_client(1, &mut client).unwrap();
    assert_eq!(server.receive_message(1, DefaultChannel::Unreliable), Some(Bytes::from_static(b"hello")));
}
