//! Demonstration of the widened replay window (256 -> 1024 sequence numbers).
//!
//! PASSES with the change applied, FAILS on the original code (at the assertion marked "DIFFERENCE"):
//! a genuine payload datagram that arrives for the first time 300 sequence numbers behind the newest
//! accepted one is surfaced (once) by the changed library and silently dropped by the original.

use std::{net::SocketAddr, time::Duration};

use renetcode::{ClientAuthentication, ConnectToken, NetcodeClient, NetcodeServer, ServerAuthentication, ServerConfig, ServerResult};

const KEY: &[u8; 32] = b"an example very very secret key.";
const PROTOCOL_ID: u64 = 7;
const CLIENT_ID: u64 = 4;

fn connected_pair() -> (NetcodeServer, NetcodeClient, SocketAddr) {
    let mut server = NetcodeServer::new(ServerConfig {
        current_time: Duration::ZERO,
        max_clients: 16,
        protocol_id: PROTOCOL_ID,
        public_addresses: vec!["127.0.0.1:5000".parse().unwrap()],
        authentication: ServerAuthentication::Secure { private_key: *KEY },
    });
    let client_addr: SocketAddr = "127.0.0.1:3000".parse().unwrap();
    let connect_token = ConnectToken::generate(Duration::ZERO, PROTOCOL_ID, 30, CLIENT_ID, 15, server.addresses(), None, KEY).unwrap();
    let mut client = NetcodeClient::new(Duration::ZERO, ClientAuthentication::Secure { connect_token }).unwrap();

    // request -> challenge
    let (packet, _) = client.update(Duration::ZERO).unwrap();
    match server.process_packet(client_addr, packet) {
        ServerResult::PacketToSend { payload, .. } => {
            client.process_packet(payload);
        }
        r => panic!("expected challenge, got {r:?}"),
    }
    // response -> connected + keep-alive
    let (packet, _) = client.update(Duration::ZERO).unwrap();
    match server.process_packet(client_addr, packet) {
        ServerResult::ClientConnected { client_id, payload, .. } => {
            assert_eq!(client_id, CLIENT_ID);
            client.process_packet(payload);
        }
        r => panic!("expected connection, got {r:?}"),
    }
    assert!(client.is_connected());
    assert!(server.is_client_connected(CLIENT_ID));
    (server, client, client_addr)
}

/// Presents one datagram to the server and returns the payload it surfaced, if any.
fn present(server: &mut NetcodeServer, addr: SocketAddr, datagram: &[u8]) -> Option<Vec<u8>> {
    let mut buffer = datagram.to_vec();
    match server.process_packet(addr, &mut buffer) {
        ServerResult::Payload { client_id, payload } => {
            assert_eq!(client_id, CLIENT_ID);
            Some(payload.to_vec())
        }
        ServerResult::None => None,
        r => panic!("unexpected result {r:?}"),
    }
}

#[test]
fn late_packet_300_behind_is_surfaced_once() {
    let (mut server, mut client, addr) = connected_pair();

    // 2000 genuine payload datagrams with consecutive sequence numbers, payload = its index.
    let datagrams: Vec<Vec<u8>> = (0..2000u32)
        .map(|i| client.generate_payload_packet(&i.to_le_bytes()).unwrap().1.to_vec())
        .collect();
    let expect = |i: u32| Some(i.to_le_bytes().to_vec());

    // The newest of the first 600 overtakes all others.
    assert_eq!(present(&mut server, addr, &datagrams[599]), expect(599));
    // Replays of it are never surfaced.
    assert_eq!(present(&mut server, addr, &datagrams[599]), None);

    // Less than 256 behind: promised by the protocol, surfaced by both versions, exactly once.
    assert_eq!(present(&mut server, addr, &datagrams[599 - 255]), expect(599 - 255));
    assert_eq!(present(&mut server, addr, &datagrams[599 - 255]), None);

    // DIFFERENCE: 300 behind the newest accepted sequence, first arrival.
    // Original (window 256): dropped as "already received". Changed (window 1024): surfaced.
    assert_eq!(present(&mut server, addr, &datagrams[599 - 300]), expect(599 - 300));
    // ... but still at most once, and a tampered copy never.
    assert_eq!(present(&mut server, addr, &datagrams[599 - 300]), None);
    let mut tampered = datagrams[599 - 301].clone();
    *tampered.last_mut().unwrap() ^= 1;
    assert_eq!(present(&mut server, addr, &tampered), None);
    // The tampered copy did not burn the sequence number: the genuine one still gets through once.
    assert_eq!(present(&mut server, addr, &datagrams[599 - 301]), expect(599 - 301));
    assert_eq!(present(&mut server, addr, &datagrams[599 - 301]), None);

    // The window is still bounded: jump ahead, then anything 1024 or more behind is refused,
    // while 1023 behind is accepted once; slots shared modulo 1024 never let a replay through.
    assert_eq!(present(&mut server, addr, &datagrams[1999]), expect(1999));
    assert_eq!(present(&mut server, addr, &datagrams[1999 - 1024]), None);
    assert_eq!(present(&mut server, addr, &datagrams[0]), None);
    assert_eq!(present(&mut server, addr, &datagrams[1999 - 1023]), expect(1999 - 1023));
    assert_eq!(present(&mut server, addr, &datagrams[1999 - 1023]), None);
    for &i in &[599usize, 599 - 255, 599 - 300, 599 - 301, 1999] {
        assert_eq!(present(&mut server, addr, &datagrams[i]), None, "replay of {i} surfaced");
    }
}
