//! Observable low-level differences of the ack / rtt policy change in renet/src/remote_connection.rs.
//! Every test passes with the change applied and fails on the original code. Public API only.

use std::time::Duration;

use bytes::Bytes;
use renet::{ConnectionConfig, DefaultChannel, RenetClient};

const TICK: Duration = Duration::from_millis(16);

// First byte of a serialized renet packet is its kind.
const KIND_SMALL_RELIABLE: u8 = 0;
const KIND_ACK: u8 = 4;

fn pair() -> (RenetClient, RenetClient) {
    // Same channel layout in both directions, so two RenetClient can talk to each other.
    let mut a = RenetClient::new(ConnectionConfig::default());
    let mut b = RenetClient::new(ConnectionConfig::default());
    a.set_connected();
    b.set_connected();
    (a, b)
}

fn count_kind(packets: &[Vec<u8>], kind: u8) -> usize {
    packets.iter().filter(|p| p[0] == kind).count()
}

/// The ack packet is the first packet of a flush and carries the lowest sequence number of that flush.
/// (Original: ack packet last, highest sequence number.)
#[test]
fn ack_packet_leads_the_flush() {
    let (mut a, mut b) = pair();

    a.send_message(DefaultChannel::ReliableOrdered, Bytes::from_static(b"ping"));
    for packet in a.get_packets_to_send() {
        b.process_packet(&packet);
    }
    assert_eq!(b.receive_message(DefaultChannel::ReliableOrdered).unwrap(), "ping");

    b.send_message(DefaultChannel::ReliableOrdered, Bytes::from_static(b"pong"));
    let packets = b.get_packets_to_send();
    assert_eq!(packets.len(), 2);

    assert_eq!(packets[0][0], KIND_ACK, "ack packet is emitted first");
    assert_eq!(packets[0][1], 0, "and gets the first sequence number of the flush");
    assert_eq!(packets[1][0], KIND_SMALL_RELIABLE);
    assert_eq!(packets[1][1], 1);

    // Nothing is lost by the reordering: the peer gets the message and releases its own.
    for packet in packets {
        a.process_packet(&packet);
    }
    assert_eq!(a.receive_message(DefaultChannel::ReliableOrdered).unwrap(), "pong");
    assert_eq!(
        a.channel_available_memory(DefaultChannel::ReliableOrdered),
        RenetClient::new(ConnectionConfig::default()).channel_available_memory(DefaultChannel::ReliableOrdered)
    );
}

/// While nothing arrives, the (unchanged) ack packet is not repeated in every flush but in every 4th.
/// An arrival, even a network duplicate, is answered in the very next flush.
/// (Original: one ack packet in every flush as long as anything is pending.)
#[test]
fn unchanged_ack_is_repeated_every_fourth_flush_only() {
    let (mut a, mut b) = pair();

    a.send_message(DefaultChannel::ReliableOrdered, Bytes::from_static(b"ping"));
    let data = a.get_packets_to_send();
    assert_eq!(data.len(), 1);
    b.process_packet(&data[0]);

    // `a` goes silent (its acks of b's acks never arrive), `b` keeps ticking.
    let mut ack_flushes = vec![];
    let mut acks = vec![];
    for flush in 1..=9 {
        b.update(TICK);
        let packets = b.get_packets_to_send();
        assert_eq!(count_kind(&packets, KIND_ACK), packets.len());
        if !packets.is_empty() {
            assert_eq!(packets.len(), 1);
            ack_flushes.push(flush);
            acks.push(packets[0].clone());
        }
    }
    assert_eq!(ack_flushes, vec![1, 5, 9]);

    // A duplicate of the data packet makes the ack due again at once.
    b.process_packet(&data[0]);
    b.update(TICK);
    assert_eq!(count_kind(&b.get_packets_to_send(), KIND_ACK), 1);
    b.update(TICK);
    assert_eq!(b.get_packets_to_send().len(), 0);

    // Any single one of the repeated acks releases the message on the sender.
    let full = RenetClient::new(ConnectionConfig::default()).channel_available_memory(DefaultChannel::ReliableOrdered);
    assert_eq!(a.channel_available_memory(DefaultChannel::ReliableOrdered), full - 4);
    a.process_packet(&acks[2]);
    assert_eq!(a.channel_available_memory(DefaultChannel::ReliableOrdered), full);
}

/// One round-trip sample per ack packet, taken from the most recently sent packet it newly acknowledges.
/// (Original: one sample per newly acknowledged packet, oldest first.)
#[test]
fn rtt_sample_comes_from_the_newest_acked_packet() {
    let (mut a, mut b) = pair();

    // Packet 0 leaves at t = 0, packet 1 at t = 100 ms.
    a.send_message(DefaultChannel::ReliableOrdered, Bytes::from_static(b"first"));
    let first = a.get_packets_to_send();
    a.update(Duration::from_millis(100));
    a.send_message(DefaultChannel::ReliableOrdered, Bytes::from_static(b"second"));
    let second = a.get_packets_to_send();
    assert_eq!((first.len(), second.len()), (1, 1));

    b.process_packet(&first[0]);
    b.process_packet(&second[0]);
    let acks = b.get_packets_to_send();
    assert_eq!(acks.len(), 1);

    // One ack packet for both arrives at t = 150 ms.
    a.update(Duration::from_millis(50));
    a.process_packet(&acks[0]);

    // Newest acked packet was sent 50 ms ago. The original code yields 0.150 * 0.875 + 0.050 * 0.125.
    assert!((a.rtt() - 0.050).abs() < 1e-9, "rtt = {}", a.rtt());
}
