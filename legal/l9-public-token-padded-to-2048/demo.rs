//! Demonstration of the behaviour difference introduced by the change in
//! `renetcode/src/token.rs`: a serialized `ConnectToken` now always has 2048 bytes (fields followed
//! by zero padding), whatever the number and kind of server addresses.
//!
//! PASSES with the change, FAILS on the original code (where the serialized size is
//! 1165 + 7 bytes per IPv4 address + 19 bytes per IPv6 address, without padding).

use std::{net::SocketAddr, time::Duration};

use renetcode::{ConnectToken, NETCODE_USER_DATA_BYTES};

const SERIALIZED_TOKEN_BYTES: usize = 2048;

fn token(addresses: Vec<SocketAddr>) -> ConnectToken {
    let private_key = b"an example very very secret key.";
    let user_data = [7u8; NETCODE_USER_DATA_BYTES];
    ConnectToken::generate(Duration::from_secs(10), 42, 300, 1234, 15, addresses, Some(&user_data), private_key).unwrap()
}

#[test]
fn serialized_token_has_fixed_size_and_round_trips() {
    let one_v4: Vec<SocketAddr> = vec!["127.0.0.1:5000".parse().unwrap()];
    let many_v6: Vec<SocketAddr> = (0..32u16).map(|i| format!("[2001:db8::{:x}]:{}", i + 1, 6000 + i).parse().unwrap()).collect();
    let mixed: Vec<SocketAddr> = vec!["10.0.0.1:1".parse().unwrap(), "[::1]:2".parse().unwrap(), "10.0.0.3:3".parse().unwrap()];

    for addresses in [one_v4, many_v6, mixed] {
        let original = token(addresses);
        let mut bytes: Vec<u8> = Vec::new();
        original.write(&mut bytes).unwrap();

        // The observable difference: on the original code the lengths are 1172, 1773 and 1198.
        assert_eq!(bytes.len(), SERIALIZED_TOKEN_BYTES, "serialized connect token is not padded to the fixed size");

        // What every version guarantees: the serialization decodes to the same value ...
        let decoded = ConnectToken::read(&mut bytes.as_slice()).unwrap();
        assert_eq!(decoded, original);

        // ... and re-encoding what was decoded yields bytes that decode to the same value again.
        let mut again: Vec<u8> = Vec::new();
        decoded.write(&mut again).unwrap();
        assert_eq!(ConnectToken::read(&mut again.as_slice()).unwrap(), original);
    }
}

#[test]
fn padding_is_zero_and_its_content_is_ignored() {
    let original = token(vec!["127.0.0.1:5000".parse().unwrap()]);
    let mut bytes: Vec<u8> = Vec::new();
    original.write(&mut bytes).unwrap();
    assert_eq!(bytes.len(), SERIALIZED_TOKEN_BYTES);

    // 8 id + 13 version + 3 * 8 + 24 xnonce + 1024 private + 4 timeout + 4 count + 7 address + 2 * 32 keys
    let fields_len = 8 + 13 + 24 + 24 + 1024 + 4 + 4 + 7 + 64;
    assert!(bytes[fields_len..].iter().all(|b| *b == 0));

    // Garbage in the padding does not change the decoded value, a short input is an error.
    for b in &mut bytes[fields_len..] {
        *b = 0xA5;
    }
    assert_eq!(ConnectToken::read(&mut bytes.as_slice()).unwrap(), original);
    assert!(ConnectToken::read(&mut &bytes[..SERIALIZED_TOKEN_BYTES - 1]).is_err());
}
