//! Demonstrates the low-level behaviour of the lane based packet emission of `RenetClient`:
//!  - the packets of one `get_packets_to_send` call go on the wire round-robin across the channels
//!    (and the pending Ack packet closes the first round) instead of grouped channel after channel,
//!  - packet sequence numbers are handed out in that wire order,
//!  - one Ack packet yields a single RTT sample, taken from the newest packet it acknowledges.
//!
//! Only the public API is used, packets are inspected with a hand written header parser.

use std::time::Duration;

use bytes::Bytes;
use renet::{ClientId, ConnectionConfig, DefaultChannel, RenetClient, RenetServer};

const SMALL_RELIABLE: u8 = 0;
const SMALL_UNRELIABLE: u8 = 1;
const RELIABLE_SLICE: u8 = 2;
const ACK: u8 = 4;

/// QUIC style varint as written by the `octets` crate.
fn read_varint(bytes: &[u8], at: &mut usize) -> u64 {
    let first = bytes[*at];
    let len = 1usize << (first >> 6);
    let mut value = u64::from(first & 0x3f);
    for i in 1..len {
        value = (value << 8) | u64::from(bytes[*at + i]);
    }
    *at += len;
    value
}

#[derive(Debug, PartialEq, Eq)]
struct Header {
    kind: u8,
    sequence: u64,
    /// None for Ack packets
    channel_id: Option<u8>,
    /// Only for slice packets
    slice_index: Option<u64>,
}

fn header(packet: &[u8]) -> Header {
    let kind = packet[0];
    let mut at = 1;
    let sequence = read_varint(packet, &mut at);
    if kind == ACK {
        return Header {
            kind,
            sequence,
            channel_id: None,
            slice_index: None,
        };
    }

    let channel_id = packet[at];
    at += 1;
    let slice_index = if kind == RELIABLE_SLICE {
        let _message_id = read_varint(packet, &mut at);
        Some(read_varint(packet, &mut at))
    } else {
        None
    };

    Header {
        kind,
        sequence,
        channel_id: Some(channel_id),
        slice_index,
    }
}

#[test]
fn packets_of_different_channels_are_interleaved_on_the_wire() {
    let client_id: ClientId = 7;
    let mut server = RenetServer::new(ConnectionConfig::default());
    let mut client = RenetClient::new(ConnectionConfig::default());
    server.add_connection(client_id);

    // Give the client something to acknowledge
    server.send_message(client_id, DefaultChannel::ReliableOrdered, Bytes::from("hello"));
    for packet in server.get_packets_to_send(client_id).unwrap() {
        client.process_packet(&packet);
    }
    assert_eq!(client.receive_message(DefaultChannel::ReliableOrdered).unwrap(), "hello");

    // Channel 0 (Unreliable): 2 packets, each message needs its own packet
    let unreliable_a = Bytes::from(vec![1u8; 1000]);
    let unreliable_b = Bytes::from(vec![2u8; 1000]);
    client.send_message(DefaultChannel::Unreliable, unreliable_a.clone());
    client.send_message(DefaultChannel::Unreliable, unreliable_b.clone());
    // Channel 1 (ReliableUnordered): 3 slices
    let sliced: Bytes = (0..3000u32).map(|i| (i % 251) as u8).collect::<Vec<u8>>().into();
    client.send_message(DefaultChannel::ReliableUnordered, sliced.clone());
    // Channel 2 (ReliableOrdered): 1 packet
    let ordered = Bytes::from(vec![3u8; 100]);
    client.send_message(DefaultChannel::ReliableOrdered, ordered.clone());

    let packets = client.get_packets_to_send();
    let headers: Vec<Header> = packets.iter().map(|p| header(p)).collect();

    let wire: Vec<(u8, Option<u8>, Option<u64>)> = headers.iter().map(|h| (h.kind, h.channel_id, h.slice_index)).collect();
    assert_eq!(
        wire,
        vec![
            // First round: one packet of every channel in priority order, then the Ack packet
            (SMALL_UNRELIABLE, Some(0), None),
            (RELIABLE_SLICE, Some(1), Some(0)),
            (SMALL_RELIABLE, Some(2), None),
            (ACK, None, None),
            // Second round
            (SMALL_UNRELIABLE, Some(0), None),
            (RELIABLE_SLICE, Some(1), Some(1)),
            // Third round
            (RELIABLE_SLICE, Some(1), Some(2)),
        ]
    );

    // Sequence numbers follow the wire order
    let sequences: Vec<u64> = headers.iter().map(|h| h.sequence).collect();
    assert_eq!(sequences, vec![0, 1, 2, 3, 4, 5, 6]);

    // Whatever the order on the wire, everything arrives intact
    for packet in packets {
        assert!(packet.len() <= 1300);
        server.process_packet_from(&packet, client_id).unwrap();
    }
    assert_eq!(server.receive_message(client_id, DefaultChannel::Unreliable).unwrap(), unreliable_a);
    assert_eq!(server.receive_message(client_id, DefaultChannel::Unreliable).unwrap(), unreliable_b);
    assert!(server.receive_message(client_id, DefaultChannel::Unreliable).is_none());
    assert_eq!(
        server.receive_message(client_id, DefaultChannel::ReliableUnordered).unwrap(),
        sliced
    );
    assert!(server.receive_message(client_id, DefaultChannel::ReliableUnordered).is_none());
    assert_eq!(server.receive_message(client_id, DefaultChannel::ReliableOrdered).unwrap(), ordered);
    assert!(server.receive_message(client_id, DefaultChannel::ReliableOrdered).is_none());

    // The server acknowledges the 7 packets, the client gets its whole budget back and goes quiet
    for packet in server.get_packets_to_send(client_id).unwrap() {
        client.process_packet(&packet);
    }
    let whole_budget = 5 * 1024 * 1024;
    assert_eq!(client.channel_available_memory(DefaultChannel::ReliableUnordered), whole_budget);
    assert_eq!(client.channel_available_memory(DefaultChannel::ReliableOrdered), whole_budget);
    client.update(Duration::from_millis(400));
    let later = client.get_packets_to_send();
    assert!(later.iter().all(|p| p[0] == ACK), "nothing is retransmitted once acknowledged");
    assert!(client.disconnect_reason().is_none());
}

#[test]
fn one_rtt_sample_per_ack_packet_from_the_newest_acked_packet() {
    let client_id: ClientId = 7;
    let mut server = RenetServer::new(ConnectionConfig::default());
    let mut client = RenetClient::new(ConnectionConfig::default());
    server.add_connection(client_id);

    let tick = Duration::from_millis(100);

    // t = 0 ms: first packet
    client.send_message(DefaultChannel::ReliableOrdered, Bytes::from("first"));
    let first = client.get_packets_to_send();
    assert_eq!(first.len(), 1);

    // t = 100 ms: second packet
    client.update(tick);
    server.update(tick);
    client.send_message(DefaultChannel::ReliableOrdered, Bytes::from("second"));
    let second = client.get_packets_to_send();
    assert_eq!(second.len(), 1);

    // t = 200 ms: both reach the server, which acknowledges them with one Ack packet
    client.update(tick);
    server.update(tick);
    for packet in first.iter().chain(second.iter()) {
        server.process_packet_from(packet, client_id).unwrap();
    }
    let acks = server.get_packets_to_send(client_id).unwrap();
    assert_eq!(acks.len(), 1);
    assert_eq!(acks[0][0], ACK);

    assert_eq!(client.rtt(), 0.0);
    client.process_packet(&acks[0]);

    // Both messages are released ...
    assert_eq!(client.channel_available_memory(DefaultChannel::ReliableOrdered), 5 * 1024 * 1024);
    // ... and the round trip is the one of the newest acknowledged packet (100 ms), the 200 ms of the
    // older packet also covered by this Ack packet are no sample of their own.
    assert!((client.rtt() - 0.1).abs() < 1e-9, "rtt = {}", client.rtt());
}
