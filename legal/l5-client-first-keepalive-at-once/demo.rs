//! Demonstration of the behaviour change in `NetcodeClient::process_packet`:
//! the client no longer waits for the remainder of the 250 ms send interval (started by its last
//! connection response) before emitting its first keep-alive once the handshake completed.
//!
//! PASSES with the change, FAILS on the original code (original returns `None` on the update that
//! follows the handshake by 10 ms).

use std::{net::SocketAddr, time::Duration};

use renetcode::{
    ClientAuthentication, ConnectToken, NetcodeClient, NetcodeServer, ServerAuthentication, ServerConfig, ServerResult,
    NETCODE_MAX_PACKET_BYTES,
};

#[test]
fn first_keep_alive_follows_handshake_immediately() {
    let protocol_id = 7;
    let client_id = 42;
    let private_key = *b"an example very very secret key.";
    let server_addr: SocketAddr = "127.0.0.1:5000".parse().unwrap();
    let client_addr: SocketAddr = "127.0.0.1:6000".parse().unwrap();

    let mut server = NetcodeServer::new(ServerConfig {
        current_time: Duration::ZERO,
        max_clients: 4,
        protocol_id,
        public_addresses: vec![server_addr],
        authentication: ServerAuthentication::Secure { private_key },
    });
    let connect_token = ConnectToken::generate(Duration::ZERO, protocol_id, 30, client_id, 5, vec![server_addr], None, &private_key).unwrap();
    let mut client = NetcodeClient::new(Duration::ZERO, ClientAuthentication::Secure { connect_token }).unwrap();

    // t = 0: connection request -> challenge
    let mut datagram = [0u8; NETCODE_MAX_PACKET_BYTES];
    let (request, addr) = client.update(Duration::ZERO).expect("connection request");
    assert_eq!(addr, server_addr);
    let len = request.len();
    datagram[..len].copy_from_slice(request);
    let mut challenge = match server.process_packet(client_addr, &mut datagram[..len]) {
        ServerResult::PacketToSend { addr, payload } => {
            assert_eq!(addr, client_addr);
            payload.to_vec()
        }
        other => panic!("expected a challenge, got {other:?}"),
    };
    assert!(client.process_packet(&mut challenge).is_none());
    assert!(client.is_connecting());

    // t = 0: connection response -> keep-alive that completes the handshake
    let (response, _) = client.update(Duration::ZERO).expect("connection response");
    let len = response.len();
    datagram[..len].copy_from_slice(response);
    let mut keep_alive = match server.process_packet(client_addr, &mut datagram[..len]) {
        ServerResult::ClientConnected { client_id: id, payload, .. } => {
            assert_eq!(id, client_id);
            payload.to_vec()
        }
        other => panic!("expected ClientConnected, got {other:?}"),
    };
    assert!(client.process_packet(&mut keep_alive).is_none());
    assert!(client.is_connected());

    // t = 10 ms: only 10 ms after the response was sent, far less than the 250 ms send rate.
    // Changed library: the first keep-alive of the session is emitted now.
    // Original library: nothing is emitted before t = 250 ms.
    server.update(Duration::from_millis(10));
    let first = client.update(Duration::from_millis(10)).map(|(packet, addr)| (packet.to_vec(), addr));
    let (mut first, addr) = first.expect("first keep-alive right after the handshake");
    assert_eq!(addr, server_addr);
    // it is an authentic session packet: the server accepts it silently and stays connected
    assert_eq!(server.process_packet(client_addr, &mut first), ServerResult::None);
    assert!(server.is_client_connected(client_id));
    assert_eq!(server.time_since_last_received_packet(client_id), Some(Duration::ZERO));

    // After that first keep-alive the usual 250 ms cadence applies again.
    assert!(client.update(Duration::from_millis(100)).is_none());
    assert!(client.update(Duration::from_millis(100)).is_none());
    assert!(client.update(Duration::from_millis(50)).is_some());
}
