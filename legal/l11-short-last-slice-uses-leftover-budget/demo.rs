// Demonstration of the "short last slice uses the leftover budget" change in
// renet/src/channel/reliable.rs (SendChannelReliable::get_packets_to_send).
//
// Both tests PASS with the change and FAIL on the original code.
use std::time::Duration;

use renet::{Bytes, ChannelConfig, ConnectionConfig, RenetClient, RenetServer, SendType};

const SLICE_SIZE: usize = 1200;
const BUDGET: u64 = 1300;

fn config(resend_time: Duration) -> ConnectionConfig {
    let channels = vec![ChannelConfig {
        channel_id: 0,
        max_memory_usage_bytes: 1_000_000,
        send_type: SendType::ReliableOrdered { resend_time },
    }];
    ConnectionConfig {
        available_bytes_per_tick: BUDGET,
        server_channels_config: channels.clone(),
        client_channels_config: channels,
    }
}

fn message(len: usize) -> Bytes {
    (0..len).map(|i| (i % 251) as u8).collect::<Vec<u8>>().into()
}

// A message of two full slices and a 10 byte tail under a budget of 1300 bytes per tick.
// Original: one slice per tick (1200 B, the 100 B leftover is wasted) -> 1 packet on the first tick, 3 ticks.
// Changed: the tail rides along with the first full slice (1210 B <= 1300 B) -> 2 packets on the first tick, 2 ticks.
#[test]
fn short_last_slice_uses_leftover_budget() {
    let cfg = config(Duration::from_millis(300));
    let mut client = RenetClient::new(cfg.clone());
    let mut server = RenetServer::new(cfg);
    server.add_connection(0);

    let msg = message(2 * SLICE_SIZE + 10);
    client.send_message(0, msg.clone());

    let first = client.get_packets_to_send();
    assert_eq!(first.len(), 2, "first tick should carry a full slice and the short last slice");
    // payload bytes stay within the budget: packet bytes minus at most a few header bytes each
    let total: usize = first.iter().map(|p| p.len()).sum();
    assert!(total >= SLICE_SIZE + 10 && total <= BUDGET as usize + 2 * 16);
    for p in &first {
        assert!(p.len() <= 1300);
        server.process_packet_from(p, 0).unwrap();
    }
    assert!(server.receive_message(0, 0).is_none());

    client.update(Duration::from_millis(16));
    let second = client.get_packets_to_send();
    assert_eq!(second.len(), 1, "second tick carries the remaining full slice");
    for p in &second {
        server.process_packet_from(p, 0).unwrap();
    }
    assert_eq!(server.receive_message(0, 0), Some(msg));

    // nothing is due any more before resend_time
    client.update(Duration::from_millis(16));
    assert!(client.get_packets_to_send().is_empty());
}

// Acks never reach the sender and resend_time is zero, so every slice is always due.
// The round-robin over the full slices must keep going although the short last slice is sent
// out of turn every tick: s0+s4, s1+s4, s2+s4, s3+s4 -> complete after 4 ticks
// (original: s0, s1, s2, s3, s4 -> 5 ticks).
#[test]
fn rotation_over_full_slices_is_kept() {
    let cfg = config(Duration::ZERO);
    let mut client = RenetClient::new(cfg.clone());
    let mut server = RenetServer::new(cfg);
    server.add_connection(0);

    let msg = message(4 * SLICE_SIZE + 10);
    client.send_message(0, msg.clone());

    let mut ticks = 0;
    let received = loop {
        ticks += 1;
        assert!(ticks <= 10, "message never completed");
        let packets = client.get_packets_to_send();
        assert_eq!(packets.len(), 2);
        for p in &packets {
            server.process_packet_from(p, 0).unwrap();
        }
        if let Some(m) = server.receive_message(0, 0) {
            break m;
        }
        client.update(Duration::from_millis(16));
    };
    assert_eq!(received, msg);
    assert_eq!(ticks, 4);
}
