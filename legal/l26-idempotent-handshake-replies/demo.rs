//! Demonstrates the idempotent handshake replies of the netcode server:
//!  - a retransmitted connection response (the keep-alive that completed the handshake was lost)
//!    is answered with that keep-alive again, until the client has confirmed the connection;
//!  - (with `--features verif_hooks`) a retransmitted connection request is answered with the
//!    challenge already issued for it instead of a fresh one.

use std::{net::SocketAddr, time::Duration};

use renetcode::{ClientAuthentication, ConnectToken, NetcodeClient, NetcodeServer, ServerAuthentication, ServerConfig, ServerResult};

const KEY: &[u8; 32] = b"an example very very secret key.";
const PROTOCOL_ID: u64 = 7;
const SEND_RATE: Duration = Duration::from_millis(250);

fn server_addr() -> SocketAddr {
    "127.0.0.1:5000".parse().unwrap()
}

fn new_server() -> NetcodeServer {
    NetcodeServer::new(ServerConfig {
        current_time: Duration::ZERO,
        max_clients: 16,
        protocol_id: PROTOCOL_ID,
        public_addresses: vec![server_addr()],
        authentication: ServerAuthentication::Secure { private_key: *KEY },
    })
}

fn new_token(client_id: u64) -> ConnectToken {
    ConnectToken::generate(Duration::ZERO, PROTOCOL_ID, 30, client_id, 5, vec![server_addr()], None, KEY).unwrap()
}

fn new_client(client_id: u64) -> NetcodeClient {
    let connect_token = new_token(client_id);
    NetcodeClient::new(Duration::ZERO, ClientAuthentication::Secure { connect_token }).unwrap()
}

#[test]
fn retransmitted_response_gets_the_keep_alive_again() {
    let client_addr: SocketAddr = "127.0.0.1:3000".parse().unwrap();
    let client_id = 4;
    let mut server = new_server();
    let mut client = new_client(client_id);

    // request -> challenge
    let (request, _) = client.update(Duration::ZERO).unwrap();
    match server.process_packet(client_addr, request) {
        ServerResult::PacketToSend { payload, .. } => assert!(client.process_packet(payload).is_none()),
        other => panic!("expected a challenge, got {other:?}"),
    }

    // response -> connected, but the keep-alive that tells the client so is lost
    let (response, _) = client.update(Duration::ZERO).unwrap();
    let response_len = response.len();
    assert!(matches!(
        server.process_packet(client_addr, response),
        ServerResult::ClientConnected { client_id: 4, .. }
    ));
    assert!(server.is_client_connected(client_id));
    assert!(!client.is_connected());

    // The client sends its response again. The server, which has it connected already,
    // answers with the keep-alive again (the unchanged server stays silent).
    server.update(SEND_RATE / 2);
    let (response, _) = client.update(SEND_RATE).unwrap();
    let mut replayed_later = response.to_vec();
    match server.process_packet(client_addr, response) {
        ServerResult::PacketToSend { addr, payload } => {
            assert_eq!(addr, client_addr);
            assert!(payload.len() < response_len);
            assert!(client.process_packet(payload).is_none());
        }
        other => panic!("expected the keep-alive again, got {other:?}"),
    }
    assert!(client.is_connected());
    assert_eq!(server.connected_clients(), 1);
    // A response is no sign of life of the session.
    assert_eq!(server.time_since_last_received_packet(client_id), Some(SEND_RATE / 2));
    // The keep-alive was just sent, the periodic one is not due yet.
    assert_eq!(server.update_client(client_id), ServerResult::None);

    // Once the client has confirmed the connection, (replayed) responses are ignored.
    let (keep_alive, _) = client.update(SEND_RATE).unwrap();
    assert_eq!(server.process_packet(client_addr, keep_alive), ServerResult::None);
    assert_eq!(server.time_since_last_received_packet(client_id), Some(Duration::ZERO));
    assert_eq!(server.process_packet(client_addr, &mut replayed_later), ServerResult::None);
    assert_eq!(server.connected_clients(), 1);
}

#[cfg(feature = "verif_hooks")]
#[test]
fn retransmitted_request_gets_the_same_challenge() {
    use renetcode::verif::Packet;

    fn challenge_of(result: ServerResult, key: &[u8; 32]) -> (u64, u64, [u8; 300]) {
        match result {
            ServerResult::PacketToSend { payload, .. } => match Packet::decode(payload, PROTOCOL_ID, Some(key), None).unwrap() {
                (
                    sequence,
                    Packet::Challenge {
                        token_sequence,
                        token_data,
                    },
                ) => (sequence, token_sequence, token_data),
                (_, other) => panic!("expected a challenge, got {other:?}"),
            },
            other => panic!("expected a packet, got {other:?}"),
        }
    }

    let addr_a: SocketAddr = "127.0.0.1:3000".parse().unwrap();
    let addr_b: SocketAddr = "127.0.0.1:3001".parse().unwrap();
    let mut server = new_server();

    let token_a = new_token(1);
    let key_a = token_a.server_to_client_key;
    let mut client_a = NetcodeClient::new(Duration::ZERO, ClientAuthentication::Secure { connect_token: token_a }).unwrap();
    let token_b = new_token(2);
    let key_b = token_b.server_to_client_key;
    let mut client_b = NetcodeClient::new(Duration::ZERO, ClientAuthentication::Secure { connect_token: token_b }).unwrap();

    let (request, _) = client_a.update(Duration::ZERO).unwrap();
    let (nonce_1, seq_1, data_1) = challenge_of(server.process_packet(addr_a, request), &key_a);

    // Another client gets its own challenge.
    let (request, _) = client_b.update(Duration::ZERO).unwrap();
    let (nonce_b, seq_b, data_b) = challenge_of(server.process_packet(addr_b, request), &key_b);
    assert_ne!(seq_b, seq_1);
    assert_ne!(data_b, data_1);

    // The first client retransmits its request: same challenge (the unchanged server issues a new one),
    // in a datagram sealed with a fresh nonce.
    server.update(SEND_RATE);
    let (request, _) = client_a.update(SEND_RATE).unwrap();
    let (nonce_2, seq_2, data_2) = challenge_of(server.process_packet(addr_a, request), &key_a);
    assert_eq!((seq_2, data_2), (seq_1, data_1));
    assert!(nonce_1 != nonce_2 && nonce_b != nonce_2 && nonce_1 != nonce_b);
    assert_eq!(server.verif_pending_addrs(), vec![addr_a, addr_b]);
}
