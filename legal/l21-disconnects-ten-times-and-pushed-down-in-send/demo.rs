//! Demonstrates the low-level behaviour of the netcode transports around disconnects:
//!
//! * a disconnect decided in the message layer (`RenetClient::disconnect`, `RenetServer::disconnect`)
//!   is pushed down to the netcode session by the `send_packets` call of the same tick
//!   (before: only by the next `update`),
//! * every disconnect datagram is put on the wire 10 times, byte-identical (before: once).
//!
//! Client and server transports talk through a forwarding socket so that the test sees every datagram.

use std::{
    net::{SocketAddr, UdpSocket},
    time::Duration,
};

use renet::{ConnectionConfig, DefaultChannel, DisconnectReason, RenetClient, RenetServer, ServerEvent};
use renet_netcode::{
    ClientAuthentication, NetcodeClientTransport, NetcodeDisconnectReason, NetcodeError, NetcodeServerTransport, NetcodeTransportError,
    ServerAuthentication, ServerConfig,
};

const PROTOCOL_ID: u64 = 7;
const CLIENT_ID: u64 = 42;
const TICK: Duration = Duration::from_millis(20);
const COPIES: usize = 10;

/// On-path forwarder: everything from the server goes to the client and vice versa.
struct Wire {
    socket: UdpSocket,
    server_addr: SocketAddr,
    client_addr: SocketAddr,
}

#[derive(Default)]
struct Seen {
    to_server: Vec<Vec<u8>>,
    to_client: Vec<Vec<u8>>,
}

impl Wire {
    /// Forwards every datagram that is in flight and returns them.
    fn pump(&self) -> Seen {
        let mut seen = Seen::default();
        let mut buffer = [0u8; 2048];
        // Loopback delivery is practically immediate, the read timeout is the slack.
        while let Ok((len, from)) = self.socket.recv_from(&mut buffer) {
            let datagram = buffer[..len].to_vec();
            if from == self.server_addr {
                self.socket.send_to(&datagram, self.client_addr).unwrap();
                seen.to_client.push(datagram);
            } else {
                assert_eq!(from, self.client_addr);
                self.socket.send_to(&datagram, self.server_addr).unwrap();
                seen.to_server.push(datagram);
            }
        }
        seen
    }
}

struct World {
    wire: Wire,
    client: RenetClient,
    client_transport: NetcodeClientTransport,
    server: RenetServer,
    server_transport: NetcodeServerTransport,
}

/// Gives forwarded datagrams the time to reach the destination socket.
fn settle() {
    std::thread::sleep(Duration::from_millis(15));
}

impl World {
    fn connected() -> World {
        let server_socket = UdpSocket::bind("127.0.0.1:0").unwrap();
        let server_addr = server_socket.local_addr().unwrap();
        let client_socket = UdpSocket::bind("127.0.0.1:0").unwrap();
        let client_addr = client_socket.local_addr().unwrap();
        let wire_socket = UdpSocket::bind("127.0.0.1:0").unwrap();
        wire_socket.set_read_timeout(Some(Duration::from_millis(15))).unwrap();
        let wire_addr = wire_socket.local_addr().unwrap();

        let server_config = ServerConfig {
            current_time: Duration::ZERO,
            max_clients: 4,
            protocol_id: PROTOCOL_ID,
            public_addresses: vec![server_addr],
            authentication: ServerAuthentication::Unsecure,
        };
        let server_transport = NetcodeServerTransport::new(server_config, server_socket).unwrap();
        let authentication = ClientAuthentication::Unsecure {
            protocol_id: PROTOCOL_ID,
            client_id: CLIENT_ID,
            server_addr: wire_addr,
            user_data: None,
        };
        let client_transport = NetcodeClientTransport::new(Duration::ZERO, authentication, client_socket).unwrap();

        let mut world = World {
            wire: Wire {
                socket: wire_socket,
                server_addr,
                client_addr,
            },
            client: RenetClient::new(ConnectionConfig::default()),
            client_transport,
            server: RenetServer::new(ConnectionConfig::default()),
            server_transport,
        };

        for _ in 0..200 {
            world.tick();
            if world.client.is_connected() && world.server.is_connected(CLIENT_ID) {
                break;
            }
        }
        assert!(world.client.is_connected(), "client did not connect");
        assert!(world.server.is_connected(CLIENT_ID), "server did not see the client");
        assert_eq!(
            world.server.get_event(),
            Some(ServerEvent::ClientConnected { client_id: CLIENT_ID })
        );
        assert_eq!(world.server.get_event(), None);

        // The session works in both directions.
        world.client.send_message(DefaultChannel::ReliableOrdered, "ping");
        world.server.send_message(CLIENT_ID, DefaultChannel::ReliableOrdered, "pong");
        for _ in 0..5 {
            world.tick();
        }
        assert_eq!(
            world.server.receive_message(CLIENT_ID, DefaultChannel::ReliableOrdered).unwrap(),
            "ping"
        );
        assert_eq!(world.client.receive_message(DefaultChannel::ReliableOrdered).unwrap(), "pong");

        world
    }

    /// One healthy tick of both sides, nothing is left in flight afterwards.
    fn tick(&mut self) {
        self.client.update(TICK);
        let _ = self.client_transport.update(TICK, &mut self.client);
        let _ = self.client_transport.send_packets(&mut self.client);
        self.wire.pump();
        settle();

        self.server.update(TICK);
        self.server_transport.update(TICK, &mut self.server).unwrap();
        self.server_transport.send_packets(&mut self.server);
        self.wire.pump();
        settle();
    }
}

fn assert_copies(datagrams: &[Vec<u8>]) {
    assert_eq!(
        datagrams.len(),
        COPIES,
        "expected {COPIES} disconnect datagrams, saw {}",
        datagrams.len()
    );
    assert!(datagrams.iter().all(|d| d == &datagrams[0]), "the copies must be byte-identical");
}

#[test]
fn client_disconnect_is_pushed_down_by_send_packets_with_redundant_datagrams() {
    let mut world = World::connected();

    world.client.disconnect();
    // Same tick: no update in between.
    let result = world.client_transport.send_packets(&mut world.client);
    assert!(result.is_ok());
    assert_eq!(
        world.client_transport.disconnect_reason(),
        Some(NetcodeDisconnectReason::DisconnectedByClient),
        "send_packets ends the netcode session of a disconnected connection"
    );

    let seen = world.wire.pump();
    assert!(seen.to_client.is_empty());
    assert_copies(&seen.to_server);
    settle();

    // The server learns about it at its next update, the surplus copies are ignored without any answer.
    world.server.update(TICK);
    world.server_transport.update(TICK, &mut world.server).unwrap();
    world.server_transport.send_packets(&mut world.server);
    assert_eq!(world.server_transport.connected_clients(), 0);
    assert!(!world.server.is_connected(CLIENT_ID));
    assert!(matches!(
        world.server.get_event(),
        Some(ServerEvent::ClientDisconnected { client_id: CLIENT_ID, .. })
    ));
    assert_eq!(world.server.get_event(), None);
    let seen = world.wire.pump();
    assert!(seen.to_client.is_empty() && seen.to_server.is_empty());

    // The connection keeps the first reason, the transport reports the ended session.
    assert_eq!(world.client.disconnect_reason(), Some(DisconnectReason::DisconnectedByClient));
    let result = world.client_transport.update(TICK, &mut world.client);
    assert!(matches!(
        result,
        Err(NetcodeTransportError::Netcode(NetcodeError::Disconnected(
            NetcodeDisconnectReason::DisconnectedByClient
        )))
    ));
    assert_eq!(world.client.disconnect_reason(), Some(DisconnectReason::DisconnectedByClient));
    assert!(world.wire.pump().to_server.is_empty());
}

#[test]
fn server_disconnect_is_pushed_down_by_send_packets_with_redundant_datagrams() {
    let mut world = World::connected();

    world.server.disconnect(CLIENT_ID);
    // Same tick: no update in between.
    world.server_transport.send_packets(&mut world.server);
    assert_eq!(world.server_transport.connected_clients(), 0);
    assert_eq!(world.server_transport.client_addr(CLIENT_ID), None);
    assert_eq!(
        world.server.get_event(),
        Some(ServerEvent::ClientDisconnected {
            client_id: CLIENT_ID,
            reason: DisconnectReason::DisconnectedByServer
        })
    );
    assert_eq!(world.server.get_event(), None);

    let seen = world.wire.pump();
    assert!(seen.to_server.is_empty());
    assert_copies(&seen.to_client);
    settle();

    // Nothing more is reported or sent by later calls.
    world.server.update(TICK);
    world.server_transport.update(TICK, &mut world.server).unwrap();
    world.server_transport.send_packets(&mut world.server);
    assert_eq!(world.server.get_event(), None);
    assert!(world.wire.pump().to_client.is_empty());

    // The client ends its session on the first copy.
    world.client.update(TICK);
    assert!(world.client_transport.update(TICK, &mut world.client).is_ok());
    assert_eq!(
        world.client_transport.disconnect_reason(),
        Some(NetcodeDisconnectReason::DisconnectedByServer)
    );
    assert!(world.client_transport.update(TICK, &mut world.client).is_err());
    assert!(world.client.is_disconnected());
    assert!(world.wire.pump().to_server.is_empty());
}

#[test]
fn transport_level_disconnects_are_redundant_too() {
    let mut world = World::connected();
    world.client_transport.disconnect();
    assert_copies(&world.wire.pump().to_server);

    let mut world = World::connected();
    world.server_transport.disconnect_all(&mut world.server);
    assert_copies(&world.wire.pump().to_client);
    assert!(matches!(
        world.server.get_event(),
        Some(ServerEvent::ClientDisconnected { client_id: CLIENT_ID, .. })
    ));
    assert_eq!(world.server.get_event(), None);
}
