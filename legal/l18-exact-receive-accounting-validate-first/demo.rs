//! Demonstrates the receive side reassembly policy of reliable channels:
//!  * a reassembly is charged with the bytes of the message that are known to exist
//!    (full slices from the start, the last slice with its real length when it arrives),
//!    not with `num_slices * 1200`;
//!  * a slice frame is validated before any memory is looked at, so a frame that is both
//!    malformed and too big is reported as `InvalidSliceMessage`;
//!  * a slice announcing another slice count than the reassembly it joins is refused.
//!
//! Every test passes with the change and fails on the unchanged tree.

use std::time::Duration;

use renet::{Bytes, ChannelConfig, ChannelError, ConnectionConfig, DisconnectReason, RenetClient, RenetServer, SendType};

const SLICE_SIZE: usize = 1200;

fn config(max_memory_usage_bytes: usize, ordered: bool) -> ConnectionConfig {
    let resend_time = Duration::from_millis(100);
    let channels = vec![ChannelConfig {
        channel_id: 0,
        max_memory_usage_bytes,
        send_type: if ordered {
            SendType::ReliableOrdered { resend_time }
        } else {
            SendType::ReliableUnordered { resend_time }
        },
    }];
    ConnectionConfig {
        available_bytes_per_tick: 60_000,
        server_channels_config: channels.clone(),
        client_channels_config: channels,
    }
}

fn put_varint(out: &mut Vec<u8>, v: u64) {
    if v < 64 {
        out.push(v as u8);
    } else if v < 16384 {
        out.extend_from_slice(&((v as u16) | 0x4000).to_be_bytes());
    } else if v < 1_073_741_824 {
        out.extend_from_slice(&((v as u32) | 0x8000_0000).to_be_bytes());
    } else {
        out.extend_from_slice(&(v | 0xc000_0000_0000_0000).to_be_bytes());
    }
}

/// Wire image of a ReliableSlice packet on channel 0.
fn reliable_slice(sequence: u64, message_id: u64, slice_index: u64, num_slices: u64, payload: &[u8]) -> Vec<u8> {
    let mut out = vec![2u8];
    put_varint(&mut out, sequence);
    out.push(0);
    put_varint(&mut out, message_id);
    put_varint(&mut out, slice_index);
    put_varint(&mut out, num_slices);
    put_varint(&mut out, payload.len() as u64);
    out.extend_from_slice(payload);
    out
}

/// A 1500 byte message fits a 2000 byte channel on both sides: its two slices
/// hold 1200 + 300 bytes, the receiver no longer asks for 2 * 1200 bytes of budget.
#[test]
fn message_within_budget_is_not_rounded_up_to_whole_slices() {
    for ordered in [true, false] {
        let mut server = RenetServer::new(config(2000, ordered));
        let mut client = RenetClient::new(config(2000, ordered));
        server.add_connection(7);

        let message: Vec<u8> = (0..1500u32).map(|i| (i % 251) as u8).collect();
        assert!(server.can_send_message(7, 0, message.len()));
        server.send_message(7, 0, message.clone());

        let packets = server.get_packets_to_send(7).unwrap();
        assert_eq!(packets.len(), 2);
        // Last slice first: nothing depends on the arrival order
        for packet in packets.iter().rev() {
            client.process_packet(packet);
        }

        assert_eq!(client.disconnect_reason(), None, "ordered = {ordered}");
        assert_eq!(client.receive_message(0), Some(Bytes::from(message)));
        assert_eq!(client.receive_message(0), None);

        // and the acknowledgement gives the sender its whole budget back
        for packet in client.get_packets_to_send() {
            server.process_packet_from(&packet, 7).unwrap();
        }
        assert_eq!(server.channel_available_memory(7, 0), 2000);
    }
}

/// Slice 5 of 2 for a message that could not be held anyway: the frame is malformed,
/// that is what is reported, the budget is not even consulted.
#[test]
fn malformed_and_oversized_slice_is_reported_as_malformed() {
    let mut client = RenetClient::new(config(2000, true));
    client.process_packet(&reliable_slice(0, 0, 5, 2, &[1u8; SLICE_SIZE]));
    assert_eq!(
        client.disconnect_reason(),
        Some(DisconnectReason::ReceiveChannelError {
            channel_id: 0,
            error: ChannelError::InvalidSliceMessage
        })
    );

    // A short slice in the middle of a message, again for a message above the budget
    let mut client = RenetClient::new(config(2000, false));
    client.process_packet(&reliable_slice(0, 3, 0, 4, &[1u8; 10]));
    assert_eq!(
        client.disconnect_reason(),
        Some(DisconnectReason::ReceiveChannelError {
            channel_id: 0,
            error: ChannelError::InvalidSliceMessage
        })
    );
}

/// All the slices of a message announce the same slice count, one that does not is refused.
#[test]
fn slice_disagreeing_with_its_reassembly_is_refused() {
    let mut client = RenetClient::new(config(100_000, true));
    client.process_packet(&reliable_slice(0, 0, 0, 3, &[1u8; SLICE_SIZE]));
    assert_eq!(client.disconnect_reason(), None);

    // Same message, valid on its own (slice 1 of 4), but the reassembly has 3 slices
    client.process_packet(&reliable_slice(1, 0, 1, 4, &[2u8; SLICE_SIZE]));
    assert_eq!(
        client.disconnect_reason(),
        Some(DisconnectReason::ReceiveChannelError {
            channel_id: 0,
            error: ChannelError::InvalidSliceMessage
        })
    );
}

/// The budget is consulted again when the last slice reveals the real length:
/// 2 full slices are admitted in a 3000 byte channel, a 700 byte last slice is one too many,
/// a 600 byte one completes the message.
#[test]
fn last_slice_is_charged_when_it_arrives() {
    let mut client = RenetClient::new(config(3000, true));
    client.process_packet(&reliable_slice(0, 0, 0, 3, &[1u8; SLICE_SIZE]));
    client.process_packet(&reliable_slice(1, 0, 1, 3, &[2u8; SLICE_SIZE]));
    assert_eq!(client.disconnect_reason(), None);
    client.process_packet(&reliable_slice(2, 0, 2, 3, &[3u8; 700]));
    assert_eq!(
        client.disconnect_reason(),
        Some(DisconnectReason::ReceiveChannelError {
            channel_id: 0,
            error: ChannelError::ReliableChannelMaxMemoryReached
        })
    );

    let mut client = RenetClient::new(config(3000, true));
    client.process_packet(&reliable_slice(0, 0, 0, 3, &[1u8; SLICE_SIZE]));
    client.process_packet(&reliable_slice(1, 0, 1, 3, &[2u8; SLICE_SIZE]));
    client.process_packet(&reliable_slice(2, 0, 2, 3, &[3u8; 600]));
    assert_eq!(client.disconnect_reason(), None);
    let message = client.receive_message(0).unwrap();
    assert_eq!(message.len(), 3000);
    assert_eq!(&message[..SLICE_SIZE], &[1u8; SLICE_SIZE][..]);
    assert_eq!(&message[SLICE_SIZE..2 * SLICE_SIZE], &[2u8; SLICE_SIZE][..]);
    assert_eq!(&message[2 * SLICE_SIZE..], &[3u8; 600][..]);
}

/// The accounted receive memory, slice by slice (needs `--features verif_hooks`).
#[cfg(feature = "verif_hooks")]
#[test]
fn accounted_receive_memory_follows_the_known_bytes() {
    for ordered in [true, false] {
        let mut client = RenetClient::new(config(100_000, ordered));
        assert_eq!(client.verif_receive_memory(0), Some((0, 100_000)));

        // first slice of 3: two full slices are certain
        client.process_packet(&reliable_slice(0, 0, 1, 3, &[2u8; SLICE_SIZE]));
        assert_eq!(client.verif_receive_memory(0), Some((2400, 100_000)));
        assert_eq!(client.verif_receive_partial_messages(0), Some(1));

        // the last slice adds its real length, its duplicate adds nothing
        client.process_packet(&reliable_slice(1, 0, 2, 3, &[3u8; 77]));
        assert_eq!(client.verif_receive_memory(0), Some((2477, 100_000)));
        client.process_packet(&reliable_slice(2, 0, 2, 3, &[3u8; 77]));
        client.process_packet(&reliable_slice(3, 0, 1, 3, &[2u8; SLICE_SIZE]));
        assert_eq!(client.verif_receive_memory(0), Some((2477, 100_000)));

        // a message whose last slice comes first is charged with everything at once
        client.process_packet(&reliable_slice(4, 1, 1, 2, &[9u8; 5]));
        assert_eq!(client.verif_receive_memory(0), Some((2477 + 1205, 100_000)));

        // completion moves the charge to the assembled message, draining returns it
        client.process_packet(&reliable_slice(5, 0, 0, 3, &[1u8; SLICE_SIZE]));
        assert_eq!(client.verif_receive_memory(0), Some((2477 + 1205, 100_000)));
        assert_eq!(client.verif_receive_partial_messages(0), Some(1));
        assert_eq!(client.receive_message(0).unwrap().len(), 2477);
        assert_eq!(client.verif_receive_memory(0), Some((1205, 100_000)));

        client.process_packet(&reliable_slice(6, 1, 0, 2, &[8u8; SLICE_SIZE]));
        assert_eq!(client.receive_message(0).unwrap().len(), 1205);
        assert_eq!(client.verif_receive_memory(0), Some((0, 100_000)));
        assert_eq!(client.verif_receive_partial_messages(0), Some(0));
        assert_eq!(client.disconnect_reason(), None);
    }
}
