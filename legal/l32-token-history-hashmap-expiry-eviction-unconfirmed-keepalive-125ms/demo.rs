//! Observable low-level differences of the server-side policy change (public API only).
use std::{net::SocketAddr, time::Duration};

use renetcode::{
    ClientAuthentication, ConnectToken, NetcodeClient, NetcodeServer, ServerAuthentication, ServerConfig, ServerResult, NETCODE_KEY_BYTES,
};

const KEY: &[u8; NETCODE_KEY_BYTES] = b"an example very very secret key.";
const PROTOCOL_ID: u64 = 7;

fn server_addr() -> SocketAddr {
    "127.0.0.1:5000".parse().unwrap()
}

fn new_server() -> NetcodeServer {
    NetcodeServer::new(ServerConfig {
        current_time: Duration::ZERO,
        max_clients: 16,
        protocol_id: PROTOCOL_ID,
        public_addresses: vec![server_addr()],
        authentication: ServerAuthentication::Secure { private_key: *KEY },
    })
}

fn new_client(client_id: u64, expire_seconds: u64) -> NetcodeClient {
    let connect_token = ConnectToken::generate(
        Duration::ZERO,
        PROTOCOL_ID,
        expire_seconds,
        client_id,
        15,
        vec![server_addr()],
        None,
        KEY,
    )
    .unwrap();
    NetcodeClient::new(Duration::ZERO, ClientAuthentication::Secure { connect_token }).unwrap()
}

fn addr(i: u32) -> SocketAddr {
    SocketAddr::from(([10, 0, (i >> 8) as u8, i as u8], 4000))
}

/// The connect-token history no longer forgets a live token because 2048 newer tokens were seen:
/// the first token, replayed from another address, is still refused (it used to get a challenge).
#[test]
fn token_history_is_not_evicted_by_newer_tokens() {
    let mut server = new_server();

    let mut first = new_client(1, 3600);
    let first_request: Vec<u8> = first.update(Duration::ZERO).unwrap().0.to_vec();
    let mut request = first_request.clone();
    assert!(matches!(server.process_packet(addr(0), &mut request), ServerResult::PacketToSend { .. }));

    // One more distinct token than the old fixed-size table could hold besides the first one.
    for i in 1..=2048u32 {
        server.update(Duration::from_millis(1));
        let mut client = new_client(1 + i as u64, 3600);
        let (request, _) = client.update(Duration::ZERO).unwrap();
        assert!(matches!(server.process_packet(addr(i), request), ServerResult::PacketToSend { .. }));
    }

    // Another address presenting the first token: no answer at all.
    let thief: SocketAddr = "10.9.9.9:4000".parse().unwrap();
    let mut request = first_request.clone();
    assert_eq!(server.process_packet(thief, &mut request), ServerResult::None);
    assert_eq!(server.connected_clients(), 0);

    // The address that presented it first is still served.
    let mut request = first_request.clone();
    assert!(matches!(server.process_packet(addr(0), &mut request), ServerResult::PacketToSend { .. }));
}

/// Until the client has sent its first authentic packet the connection keep-alive is repeated every
/// 125 ms; afterwards the period is the usual 250 ms.
#[test]
fn unconfirmed_client_gets_keep_alive_twice_as_often() {
    let mut server = new_server();
    let client_addr = addr(1);
    let client_id = 42;
    let mut client = new_client(client_id, 30);

    let (request, _) = client.update(Duration::ZERO).unwrap();
    match server.process_packet(client_addr, request) {
        ServerResult::PacketToSend { payload, .. } => assert!(client.process_packet(payload).is_none()),
        r => panic!("expected challenge, got {:?}", r),
    }
    let (response, _) = client.update(Duration::ZERO).unwrap();
    // The keep-alive that completes the handshake is "lost": the client stays in the response step.
    assert!(matches!(
        server.process_packet(client_addr, response),
        ServerResult::ClientConnected { .. }
    ));
    assert!(!client.is_connected());

    assert_eq!(server.update_client(client_id), ServerResult::None);
    server.update(Duration::from_millis(125));
    match server.update_client(client_id) {
        ServerResult::PacketToSend { addr, payload } => {
            assert_eq!(addr, client_addr);
            assert!(client.process_packet(payload).is_none());
        }
        r => panic!("expected an early keep-alive for the unconfirmed client, got {:?}", r),
    }
    assert!(client.is_connected());

    // The client confirms the connection with a keep-alive of its own: back to the normal period.
    let (keep_alive, _) = client.update(Duration::from_millis(250)).unwrap();
    assert_eq!(server.process_packet(client_addr, keep_alive), ServerResult::None);
    server.update(Duration::from_millis(125));
    assert_eq!(server.update_client(client_id), ServerResult::None);
    server.update(Duration::from_millis(125));
    assert!(matches!(server.update_client(client_id), ServerResult::PacketToSend { .. }));
}
