//! Demonstration of the changed step order inside `NetcodeServerTransport::update`.
//!
//! Scenario: a connected client has been idle for longer than the netcode send rate
//! (250 ms) and the application calls `RenetServer::disconnect(client_id)`.
//! In the next `NetcodeServerTransport::update`:
//!   * original code : update_client() first -> a KeepAlive datagram, then the Disconnect datagram (2 datagrams)
//!   * changed code  : the session is ended first -> only the Disconnect datagram (1 datagram)
//!
//! The test PASSES with the change and FAILS on the original code.

use std::{
    net::{SocketAddr, UdpSocket},
    thread::sleep,
    time::Duration,
};

use renet::{ConnectionConfig, RenetServer, ServerEvent};
use renet_netcode::{ClientAuthentication, NetcodeServerTransport, ServerAuthentication, ServerConfig};
use renetcode::{DisconnectReason, NetcodeClient};

const PROTOCOL_ID: u64 = 7;
const CLIENT_ID: u64 = 42;

/// Receives everything currently queued on the (non-blocking) socket, feeds it to the netcode client
/// and returns how many datagrams were read.
fn drain(socket: &UdpSocket, server_addr: SocketAddr, client: &mut NetcodeClient) -> usize {
    let mut buffer = [0u8; 2048];
    let mut count = 0;
    loop {
        match socket.recv_from(&mut buffer) {
            Ok((len, addr)) => {
                assert_eq!(addr, server_addr);
                count += 1;
                client.process_packet(&mut buffer[..len]);
            }
            Err(e) if e.kind() == std::io::ErrorKind::WouldBlock => break,
            Err(e) => panic!("recv failed: {e}"),
        }
    }
    count
}

#[test]
fn no_keep_alive_for_a_client_disconnected_in_the_same_update() {
    let server_socket = UdpSocket::bind("127.0.0.1:0").unwrap();
    let server_addr = server_socket.local_addr().unwrap();
    let mut transport = NetcodeServerTransport::new(
        ServerConfig {
            current_time: Duration::ZERO,
            max_clients: 4,
            protocol_id: PROTOCOL_ID,
            public_addresses: vec![server_addr],
            authentication: ServerAuthentication::Unsecure,
        },
        server_socket,
    )
    .unwrap();
    let mut server = RenetServer::new(ConnectionConfig::default());

    // A hand-driven netcode client on a raw socket, so that every datagram of the server can be counted.
    let client_socket = UdpSocket::bind("127.0.0.1:0").unwrap();
    client_socket.set_nonblocking(true).unwrap();
    let mut client = NetcodeClient::new(
        Duration::ZERO,
        ClientAuthentication::Unsecure {
            protocol_id: PROTOCOL_ID,
            client_id: CLIENT_ID,
            server_addr,
            user_data: None,
        },
    )
    .unwrap();

    // Handshake.
    let step = Duration::from_millis(20);
    for _ in 0..200 {
        if let Some((packet, addr)) = client.update(step) {
            client_socket.send_to(packet, addr).unwrap();
        }
        sleep(Duration::from_millis(3));
        server.update(step);
        transport.update(step, &mut server).unwrap();
        sleep(Duration::from_millis(3));
        drain(&client_socket, server_addr, &mut client);
        if client.is_connected() && server.is_connected(CLIENT_ID) {
            break;
        }
    }
    assert!(client.is_connected(), "handshake did not complete");
    assert!(server.is_connected(CLIENT_ID));
    assert!(matches!(server.get_event(), Some(ServerEvent::ClientConnected { client_id: CLIENT_ID })));

    // Let the session be idle for more than the send rate: exactly one keep-alive is due (both versions).
    server.update(Duration::from_millis(300));
    transport.update(Duration::from_millis(300), &mut server).unwrap();
    sleep(Duration::from_millis(50));
    assert_eq!(drain(&client_socket, server_addr, &mut client), 1, "one keep-alive for an idle session");
    assert!(client.is_connected());

    // Idle again for more than the send rate, and the application disconnects the client.
    server.disconnect(CLIENT_ID);
    server.update(Duration::from_millis(300));
    transport.update(Duration::from_millis(300), &mut server).unwrap();
    sleep(Duration::from_millis(50));
    let datagrams = drain(&client_socket, server_addr, &mut client);

    // Both versions end the session on both sides and report it exactly once...
    assert_eq!(client.disconnect_reason(), Some(DisconnectReason::DisconnectedByServer));
    assert_eq!(transport.connected_clients(), 0);
    assert!(!server.is_connected(CLIENT_ID));
    assert!(matches!(
        server.get_event(),
        Some(ServerEvent::ClientDisconnected {
            client_id: CLIENT_ID,
            reason: renet::DisconnectReason::DisconnectedByServer
        })
    ));
    assert!(server.get_event().is_none());

    // ...but only the changed version refrains from sending a keep-alive right before the disconnect packet.
    assert_eq!(
        datagrams, 1,
        "expected only the disconnect datagram; the original code sends a keep-alive first (2 datagrams)"
    );
}
