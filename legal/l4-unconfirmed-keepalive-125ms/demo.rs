//! Demonstration: a client that completed the handshake on the server but has not yet confirmed the
//! connection (the server has not received any authenticated session packet from it) gets its
//! keep-alives at twice the regular rate (every 125 ms instead of every 250 ms).
//!
//! PASSES with the change, FAILS on the original code (first assertion: original returns `None`
//! 125 ms after the connection was accepted).

use std::{net::SocketAddr, time::Duration};

use renetcode::{ClientAuthentication, ConnectToken, NetcodeClient, NetcodeServer, ServerAuthentication, ServerConfig, ServerResult};

const KEY: &[u8; 32] = b"an example very very secret key.";
const PROTOCOL_ID: u64 = 7;
const CLIENT_ID: u64 = 4;

fn is_packet(result: &ServerResult) -> bool {
    matches!(result, ServerResult::PacketToSend { .. })
}

#[test]
fn unconfirmed_client_gets_keep_alives_at_double_rate() {
    let server_addr: SocketAddr = "127.0.0.1:5000".parse().unwrap();
    let client_addr: SocketAddr = "127.0.0.1:3000".parse().unwrap();
    let mut server = NetcodeServer::new(ServerConfig {
        current_time: Duration::ZERO,
        max_clients: 16,
        protocol_id: PROTOCOL_ID,
        public_addresses: vec![server_addr],
        authentication: ServerAuthentication::Secure { private_key: *KEY },
    });
    let connect_token = ConnectToken::generate(Duration::ZERO, PROTOCOL_ID, 30, CLIENT_ID, 15, vec![server_addr], None, KEY).unwrap();
    let mut client = NetcodeClient::new(Duration::ZERO, ClientAuthentication::Secure { connect_token }).unwrap();

    // Request -> challenge
    let (packet, _) = client.update(Duration::ZERO).unwrap();
    match server.process_packet(client_addr, packet) {
        ServerResult::PacketToSend { payload, .. } => {
            client.process_packet(payload);
        }
        r => panic!("expected challenge, got {:?}", r),
    }
    // Response -> connected on the server; the first keep-alive is LOST on the way to the client.
    let (packet, _) = client.update(Duration::ZERO).unwrap();
    match server.process_packet(client_addr, packet) {
        ServerResult::ClientConnected { client_id, .. } => assert_eq!(client_id, CLIENT_ID),
        r => panic!("expected connection, got {:?}", r),
    }
    assert!(server.is_client_connected(CLIENT_ID));
    assert!(!client.is_connected());

    // Nothing more at the same instant.
    assert!(!is_packet(&server.update_client(CLIENT_ID)));

    // 125 ms later: the changed server repeats the keep-alive, the original one stays silent until 250 ms.
    server.update(Duration::from_millis(125));
    match server.update_client(CLIENT_ID) {
        ServerResult::PacketToSend { addr, payload } => {
            assert_eq!(addr, client_addr);
            assert!(payload.len() <= 1400);
            assert!(client.process_packet(payload).is_none());
        }
        r => panic!("expected a keep-alive 125 ms after the handshake for an unconfirmed client, got {:?}", r),
    }
    assert!(client.is_connected(), "the repeated keep-alive completes the handshake on the client");
    // Only one per period.
    assert!(!is_packet(&server.update_client(CLIENT_ID)));

    // The client now sends an authenticated packet: the connection is confirmed and the cadence is 250 ms again.
    let (_, packet) = client.generate_payload_packet(&[1, 2, 3]).unwrap();
    match server.process_packet(client_addr, packet) {
        ServerResult::Payload { client_id, payload } => {
            assert_eq!(client_id, CLIENT_ID);
            assert_eq!(payload, &[1, 2, 3]);
        }
        r => panic!("expected payload, got {:?}", r),
    }
    server.update(Duration::from_millis(125));
    assert!(!is_packet(&server.update_client(CLIENT_ID)), "confirmed clients keep the 250 ms cadence");
    server.update(Duration::from_millis(124));
    assert!(!is_packet(&server.update_client(CLIENT_ID)));
    server.update(Duration::from_millis(1));
    assert!(is_packet(&server.update_client(CLIENT_ID)));
}
