//! Observable low-level differences of the client handshake / packet header change.
//! Every test passes with the change applied and fails without it. Public API only.

use std::{net::SocketAddr, time::Duration};

use renetcode::{
    ClientAuthentication, ConnectToken, DisconnectReason, NetcodeClient, NetcodeServer, ServerAuthentication, ServerConfig, ServerResult,
    NETCODE_KEY_BYTES,
};

const KEY: &[u8; NETCODE_KEY_BYTES] = b"an example very very secret key.";
const PROTOCOL_ID: u64 = 7;
const MAC_BYTES: usize = 16;
const TICK: Duration = Duration::from_millis(1);

fn addr(s: &str) -> SocketAddr {
    s.parse().unwrap()
}

fn new_server(max_clients: usize, public: &str) -> NetcodeServer {
    NetcodeServer::new(ServerConfig {
        current_time: Duration::ZERO,
        max_clients,
        protocol_id: PROTOCOL_ID,
        public_addresses: vec![addr(public)],
        authentication: ServerAuthentication::Secure { private_key: *KEY },
    })
}

fn new_client(client_id: u64, servers: &[&str]) -> NetcodeClient {
    let token = ConnectToken::generate(
        Duration::ZERO,
        PROTOCOL_ID,
        30,
        client_id,
        5,
        servers.iter().map(|s| addr(s)).collect(),
        None,
        KEY,
    )
    .unwrap();
    NetcodeClient::new(Duration::ZERO, ClientAuthentication::Secure { connect_token: token }).unwrap()
}

/// Request -> challenge -> response. Returns the server's answer to the response (the keep-alive that
/// announces the connection) WITHOUT delivering it to the client.
fn handshake_up_to_keep_alive(client: &mut NetcodeClient, server: &mut NetcodeServer, client_addr: SocketAddr) -> Vec<u8> {
    let (request, _) = client.update(TICK).expect("connection request");
    let mut request = request.to_vec();
    let mut challenge = match server.process_packet(client_addr, &mut request) {
        ServerResult::PacketToSend { payload, .. } => payload.to_vec(),
        other => panic!("expected a challenge, got {other:?}"),
    };
    assert!(client.process_packet(&mut challenge).is_none());

    let (response, _) = client.update(TICK).expect("connection response");
    let mut response = response.to_vec();
    match server.process_packet(client_addr, &mut response) {
        ServerResult::ClientConnected { payload, .. } => payload.to_vec(),
        other => panic!("expected the client to connect, got {other:?}"),
    }
}

/// Sequence numbers are written as u16 / u32 / u64 (2, 4 or 8 bytes), no longer as 1 to 8 bytes.
#[test]
fn sequence_is_written_in_two_four_or_eight_bytes() {
    let client_addr = addr("127.0.0.1:4000");
    let mut server = new_server(4, "127.0.0.1:5000");
    let mut client = new_client(1, &["127.0.0.1:5000"]);
    let mut keep_alive = handshake_up_to_keep_alive(&mut client, &mut server, client_addr);

    // Server side: first packet of the session (sequence 0), a keep-alive: prefix + sequence + 2 * u32 + tag.
    assert_eq!(keep_alive[0] >> 4, 2, "prefix byte announces a two byte sequence");
    assert_eq!(keep_alive.len(), 1 + 2 + 8 + MAC_BYTES);
    client.process_packet(&mut keep_alive);
    assert!(client.is_connected());

    // Client side: a small sequence number (request and response came first).
    let payload = [9u8; 10];
    let (_, packet) = client.generate_payload_packet(&payload).unwrap();
    assert_eq!(packet[0] >> 4, 2, "prefix byte announces a two byte sequence");
    assert_eq!(packet.len(), 1 + 2 + payload.len() + MAC_BYTES);

    // The other side reads it back unchanged.
    let mut packet = packet.to_vec();
    match server.process_packet(client_addr, &mut packet) {
        ServerResult::Payload { client_id, payload: received } => {
            assert_eq!(client_id, 1);
            assert_eq!(received, payload);
        }
        other => panic!("expected the payload, got {other:?}"),
    }
}

/// An authentic payload completes the handshake of a client still sending its response (the keep-alive
/// was lost), and that payload is surfaced instead of being dropped.
#[test]
fn payload_completes_the_handshake_when_the_keep_alive_was_lost() {
    let client_addr = addr("127.0.0.1:4000");
    let mut server = new_server(4, "127.0.0.1:5000");
    let mut client = new_client(1, &["127.0.0.1:5000"]);
    let _lost_keep_alive = handshake_up_to_keep_alive(&mut client, &mut server, client_addr);
    assert!(client.is_connecting());

    let message = b"first message of the session";
    let (to, packet) = server.generate_payload_packet(1, message).unwrap();
    assert_eq!(to, client_addr);
    let mut packet = packet.to_vec();
    let mut replayed = packet.clone();

    let surfaced = client.process_packet(&mut packet).map(|p| p.to_vec());
    assert_eq!(surfaced.as_deref(), Some(&message[..]));
    assert!(client.is_connected());

    // Still surfaced at most once.
    assert!(client.process_packet(&mut replayed).is_none());
}

/// The keep-alive that confirms the connection to the server leaves with the first update after the
/// client connected, it does not wait for the send rate counted from the last response.
#[test]
fn first_keep_alive_is_sent_right_after_connecting() {
    let client_addr = addr("127.0.0.1:4000");
    let mut server = new_server(4, "127.0.0.1:5000");
    let mut client = new_client(1, &["127.0.0.1:5000"]);
    let mut keep_alive = handshake_up_to_keep_alive(&mut client, &mut server, client_addr);
    client.process_packet(&mut keep_alive);
    assert!(client.is_connected());

    // 1 ms after the response was sent (send rate: 250 ms).
    let (packet, to) = client.update(TICK).expect("a keep-alive right after connecting");
    assert_eq!(to, addr("127.0.0.1:5000"));
    assert_eq!(packet[0] & 0xF, 4, "keep-alive packet");
    let mut packet = packet.to_vec();
    assert_eq!(server.process_packet(client_addr, &mut packet), ServerResult::None);

    // Afterwards the usual cadence applies.
    assert!(client.update(TICK).is_none());
    assert!(client.update(Duration::from_millis(250)).is_some());
}

/// A client refused by a full server moves on to the next server address of its token, only the refusal
/// of the last listed server is final.
#[test]
fn denied_client_tries_the_next_server_address() {
    let first = "127.0.0.1:5000";
    let second = "127.0.0.1:5001";
    let mut full_server = new_server(1, first);

    let occupant_addr = addr("127.0.0.1:4000");
    let mut occupant = new_client(1, &[first]);
    let mut keep_alive = handshake_up_to_keep_alive(&mut occupant, &mut full_server, occupant_addr);
    occupant.process_packet(&mut keep_alive);
    assert!(occupant.is_connected());

    let client_addr = addr("127.0.0.1:4001");
    let mut client = new_client(2, &[first, second]);
    assert_eq!(client.server_addr(), addr(first));
    let (request, _) = client.update(TICK).unwrap();
    let mut request = request.to_vec();
    let mut denied = match full_server.process_packet(client_addr, &mut request) {
        ServerResult::PacketToSend { payload, .. } => payload.to_vec(),
        other => panic!("expected a denial, got {other:?}"),
    };
    let mut denied_again = denied.clone();
    assert_eq!(denied[0] & 0xF, 1, "connection denied packet");

    client.process_packet(&mut denied);
    assert!(client.is_connecting(), "{:?}", client.disconnect_reason());
    assert_eq!(client.server_addr(), addr(second));
    assert_eq!(full_server.clients_id(), vec![1]);

    // The request for the second server leaves with the next update.
    let (request, to) = client.update(TICK).expect("a request for the second server");
    assert_eq!(to, addr(second));
    assert_eq!(request[0] & 0xF, 0, "connection request packet");

    // No further server listed: now the refusal is final.
    client.process_packet(&mut denied_again);
    assert_eq!(client.disconnect_reason(), Some(DisconnectReason::ConnectionDenied));
    assert!(client.update(TICK).is_none());
}
