//! Demonstrates the acknowledgement scheduling: Ack packets are emitted right away when
//! messages or slices arrived, but an endpoint that received nothing (or nothing but Ack
//! packets) repeats its pending acknowledgements only every 8th `get_packets_to_send` call
//! instead of in every call.

use bytes::Bytes;
use renet::{ConnectionConfig, DefaultChannel, RenetClient};
use std::time::Duration;

const TICK: Duration = Duration::from_millis(16);
const ACK_PACKET_TYPE: u8 = 4;

fn is_ack(packet: &[u8]) -> bool {
    packet[0] == ACK_PACKET_TYPE
}

fn tick(a: &mut RenetClient, b: &mut RenetClient) {
    a.update(TICK);
    b.update(TICK);
}

#[test]
fn idle_endpoints_do_not_repeat_acks_every_tick() {
    // The default configuration has the same channels in both directions,
    // so two `RenetClient`s can talk to each other.
    let mut a = RenetClient::new(ConnectionConfig::default());
    let mut b = RenetClient::new(ConnectionConfig::default());
    a.set_connected();
    b.set_connected();

    let full = a.channel_available_memory(DefaultChannel::ReliableOrdered);

    // a -> b: one reliable message
    a.send_message(DefaultChannel::ReliableOrdered, Bytes::from_static(b"hello"));
    let packets = a.get_packets_to_send();
    assert_eq!(packets.len(), 1);
    assert!(!is_ack(&packets[0]));
    assert!(a.channel_available_memory(DefaultChannel::ReliableOrdered) < full);
    for packet in packets.iter() {
        b.process_packet(packet);
    }
    assert_eq!(b.receive_message(DefaultChannel::ReliableOrdered).unwrap(), "hello");

    // b acknowledges it in its very next batch
    let packets = b.get_packets_to_send();
    assert_eq!(packets.len(), 1);
    assert!(is_ack(&packets[0]));
    a.process_packet(&packets[0]);
    assert_eq!(a.channel_available_memory(DefaultChannel::ReliableOrdered), full);

    // Nothing new arrives at b: the acknowledgement is not repeated in the next 7 batches,
    // but it is in the 8th (its first Ack packet could have been lost).
    for call in 1..=7 {
        tick(&mut a, &mut b);
        let packets = b.get_packets_to_send();
        assert!(packets.is_empty(), "b repeated its ack in call {call} after the previous one");
    }
    tick(&mut a, &mut b);
    let packets = b.get_packets_to_send();
    assert_eq!(packets.len(), 1);
    assert!(is_ack(&packets[0]));

    // a got nothing but an Ack packet: that alone does not make it answer right away,
    // the Ack packet of b is confirmed by the periodic repetition (within 8 batches).
    let packets = a.get_packets_to_send();
    assert!(packets.is_empty(), "a answered an Ack packet with an immediate Ack packet");
    let mut calls_until_ack = 1;
    loop {
        tick(&mut a, &mut b);
        calls_until_ack += 1;
        let packets = a.get_packets_to_send();
        if !packets.is_empty() {
            assert_eq!(packets.len(), 1);
            assert!(is_ack(&packets[0]));
            b.process_packet(&packets[0]);
            break;
        }
        assert!(calls_until_ack < 8, "a never confirmed the Ack packet of b");
    }

    // A packet with a message is acknowledged immediately, whatever the repetition interval says.
    let packets = b.get_packets_to_send();
    assert!(packets.is_empty());
    a.send_message(DefaultChannel::ReliableUnordered, Bytes::from_static(b"again"));
    let packets = a.get_packets_to_send();
    assert_eq!(packets.len(), 1);
    b.process_packet(&packets[0]);
    let packets = b.get_packets_to_send();
    assert_eq!(packets.len(), 1);
    assert!(is_ack(&packets[0]));
    a.process_packet(&packets[0]);
    assert_eq!(a.channel_available_memory(DefaultChannel::ReliableUnordered), full_unordered(&a));
    assert_eq!(b.receive_message(DefaultChannel::ReliableUnordered).unwrap(), "again");

    assert_eq!(a.disconnect_reason(), None);
    assert_eq!(b.disconnect_reason(), None);
}

fn full_unordered(_client: &RenetClient) -> usize {
    // A fresh connection offers the whole budget of the channel.
    RenetClient::new(ConnectionConfig::default()).channel_available_memory(DefaultChannel::ReliableUnordered)
}
