//! Demonstrates the first-fit packing of small messages on the send side.
//!
//! Unchanged tree: small messages of one channel are packed sequentially, a packet is closed as soon
//! as the next message does not fit, so 700, 700, 400, 400 bytes travel as [700] [700, 400] [400].
//! With the change every small message goes into the earliest open packet with room for it, so the
//! same messages travel as [700, 400] [700, 400]: one packet less, and on an Unreliable channel the
//! receiving application obtains them packet by packet (1st, 3rd, 2nd, 4th submitted).

use bytes::Bytes;
use renet::{ClientId, ConnectionConfig, DefaultChannel, RenetClient, RenetServer};

fn message(tag: u8, len: usize) -> Bytes {
    Bytes::from(vec![tag; len])
}

fn setup() -> (RenetClient, RenetServer, ClientId) {
    let mut server = RenetServer::new(ConnectionConfig::default());
    let mut client = RenetClient::new(ConnectionConfig::default());
    let client_id: ClientId = 7;
    server.add_connection(client_id);
    client.set_connected();
    (client, server, client_id)
}

#[test]
fn unreliable_small_messages_are_packed_first_fit() {
    let (mut client, mut server, client_id) = setup();

    let submitted = [message(1, 700), message(2, 700), message(3, 400), message(4, 400)];
    for m in submitted.iter() {
        client.send_message(DefaultChannel::Unreliable, m.clone());
    }

    let packets = client.get_packets_to_send();
    // [700, 400] [700, 400] instead of [700] [700, 400] [400]
    assert_eq!(packets.len(), 2, "two densely packed packets are expected");
    for packet in packets.iter() {
        assert!(packet.len() <= 1300);
        // 700 + 400 bytes of payload in each of them
        assert!(packet.len() > 1100);
    }

    for packet in packets.iter() {
        server.process_packet_from(packet, client_id).unwrap();
    }

    let mut obtained = vec![];
    while let Some(m) = server.receive_message(client_id, DefaultChannel::Unreliable) {
        obtained.push(m);
    }

    // Every message arrives intact and exactly once ...
    assert_eq!(obtained.len(), 4);
    for m in submitted.iter() {
        assert_eq!(obtained.iter().filter(|o| *o == m).count(), 1);
    }
    // ... grouped by the packet that carried it
    let tags: Vec<u8> = obtained.iter().map(|m| m[0]).collect();
    assert_eq!(tags, vec![1, 3, 2, 4]);
}

#[test]
fn reliable_small_messages_are_packed_first_fit() {
    let (mut client, mut server, client_id) = setup();

    let submitted = [message(1, 700), message(2, 700), message(3, 400), message(4, 400)];
    for m in submitted.iter() {
        client.send_message(DefaultChannel::ReliableOrdered, m.clone());
    }

    let packets = client.get_packets_to_send();
    assert_eq!(packets.len(), 2, "two densely packed packets are expected");

    // Deliver the second packet first: nothing can be handed over before the first message is there
    server.process_packet_from(&packets[1], client_id).unwrap();
    assert!(server.receive_message(client_id, DefaultChannel::ReliableOrdered).is_none());
    server.process_packet_from(&packets[0], client_id).unwrap();

    // The ordered channel still hands the messages over in submission order
    for m in submitted.iter() {
        assert_eq!(server.receive_message(client_id, DefaultChannel::ReliableOrdered).as_ref(), Some(m));
    }
    assert!(server.receive_message(client_id, DefaultChannel::ReliableOrdered).is_none());

    // Both packets acknowledged: the whole channel budget is available again and nothing is resent
    let before = client.channel_available_memory(DefaultChannel::ReliableOrdered);
    for packet in server.get_packets_to_send(client_id).unwrap() {
        client.process_packet(&packet);
    }
    let after = client.channel_available_memory(DefaultChannel::ReliableOrdered);
    assert_eq!(after - before, 2200);
    client.update(std::time::Duration::from_secs(1));
    assert!(client.get_packets_to_send().iter().all(|p| p[0] == 4), "only acks may follow");
}

#[test]
fn small_packets_follow_the_slices_and_fill_up_late() {
    let (mut client, mut server, client_id) = setup();

    // 1000 | sliced 3000 | 900 | 150 | 250: sequential packing needs [1000] [900, 150] [250] besides the
    // three slices, first-fit puts the 150 next to the 1000 and the 250 next to the 900.
    let sizes = [1000usize, 3000, 900, 150, 250];
    for (i, len) in sizes.iter().enumerate() {
        client.send_message(DefaultChannel::ReliableUnordered, message(i as u8, *len));
    }

    let packets = client.get_packets_to_send();
    assert_eq!(packets.len(), 3 + 2);
    // Packet type is the first byte: 2 = reliable slice, 0 = small reliable messages
    let kinds: Vec<u8> = packets.iter().map(|p| p[0]).collect();
    assert_eq!(kinds, vec![2, 2, 2, 0, 0]);

    for packet in packets.iter() {
        server.process_packet_from(packet, client_id).unwrap();
    }
    let mut lens = vec![];
    while let Some(m) = server.receive_message(client_id, DefaultChannel::ReliableUnordered) {
        assert!(m.iter().all(|b| *b == m[0]));
        assert_eq!(sizes[m[0] as usize], m.len());
        lens.push(m.len());
    }
    lens.sort();
    assert_eq!(lens, vec![150, 250, 900, 1000, 3000]);
}
