// Demonstration for the "packets of one tick leave in message order" change in
// renet/src/channel/reliable.rs (SendChannelReliable::get_packets_to_send).
//
// PASSES with the change applied, FAILS on the original code.
//
// Scenario: on one ReliableOrdered channel the application submits, within one tick,
// a small message, a sliced message (3 slices) and another small message.
//   original: [slice, slice, slice, small{a, b}]            -> 4 packets
//   changed:  [small{a}, slice, slice, slice, small{b}]     -> 5 packets
use bytes::Bytes;
use renet::{ConnectionConfig, DefaultChannel, RenetClient, RenetServer};

#[test]
fn small_messages_queued_before_a_sliced_message_leave_first() {
    let mut server = RenetServer::new(ConnectionConfig::default());
    let mut client = RenetClient::new(ConnectionConfig::default());
    let client_id = 7;
    server.add_connection(client_id);

    let small_a = Bytes::from_static(b"first small message");
    let big = Bytes::from(vec![0xABu8; 3000]); // 3 slices of at most 1200 bytes
    let small_b = Bytes::from_static(b"second small message");

    server.send_message(client_id, DefaultChannel::ReliableOrdered, small_a.clone());
    server.send_message(client_id, DefaultChannel::ReliableOrdered, big.clone());
    server.send_message(client_id, DefaultChannel::ReliableOrdered, small_b.clone());

    let packets = server.get_packets_to_send(client_id).unwrap();
    for packet in packets.iter() {
        assert!(packet.len() <= 1300);
    }

    // Behaviour difference 1: number of packets of the tick.
    assert_eq!(packets.len(), 5, "expected small{{a}}, 3 slices, small{{b}}");

    // Behaviour difference 2: the very first packet already carries the first message.
    client.process_packet(&packets[0]);
    assert_eq!(client.receive_message(DefaultChannel::ReliableOrdered), Some(small_a));
    assert_eq!(client.receive_message(DefaultChannel::ReliableOrdered), None);

    // Whatever the packet layout, the stream is delivered intact and in order.
    for packet in packets.iter().skip(1) {
        client.process_packet(packet);
    }
    assert_eq!(client.receive_message(DefaultChannel::ReliableOrdered), Some(big));
    assert_eq!(client.receive_message(DefaultChannel::ReliableOrdered), Some(small_b));
    assert_eq!(client.receive_message(DefaultChannel::ReliableOrdered), None);
    assert_eq!(client.disconnect_reason(), None);

    // The acknowledgement releases everything on the sender, nothing is sent again.
    for packet in client.get_packets_to_send() {
        server.process_packet_from(&packet, client_id).unwrap();
    }
    server.update(std::time::Duration::from_secs(1));
    // (only the acknowledgement of the client's ack packet leaves, a few bytes long)
    let later = server.get_packets_to_send(client_id).unwrap();
    assert!(later.len() <= 1);
    assert!(later.iter().all(|p| p.len() < 16));
}
