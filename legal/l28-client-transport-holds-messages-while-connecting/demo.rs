//! Demonstrates the low-level behaviour of the reworked `NetcodeClientTransport`:
//!  * `send_packets` during the handshake returns `Ok(())` and leaves the messages queued,
//!    they are transmitted once the client is connected (an unreliable message used to be lost);
//!  * `update` mirrors what it did to the netcode session before it returns: the update that reads
//!    the server's disconnect datagram already fails with `Disconnected(DisconnectedByServer)`
//!    and leaves the `RenetClient` disconnected;
//!  * `NetcodeTransportError::source()` exposes the wrapped error.

use std::{error::Error, net::UdpSocket, thread::sleep, time::Duration};

use renet::{ConnectionConfig, DefaultChannel, RenetClient, RenetServer, ServerEvent};
use renet_netcode::{
    ClientAuthentication, NetcodeClientTransport, NetcodeDisconnectReason, NetcodeError, NetcodeServerTransport, NetcodeTransportError,
    ServerAuthentication, ServerConfig,
};

const PROTOCOL_ID: u64 = 7;
const CLIENT_ID: u64 = 42;
const TICK: Duration = Duration::from_millis(20);

fn setup() -> (RenetServer, NetcodeServerTransport, RenetClient, NetcodeClientTransport) {
    let server_socket = UdpSocket::bind("127.0.0.1:0").unwrap();
    let server_addr = server_socket.local_addr().unwrap();
    let server_config = ServerConfig {
        current_time: Duration::ZERO,
        max_clients: 4,
        protocol_id: PROTOCOL_ID,
        public_addresses: vec![server_addr],
        authentication: ServerAuthentication::Unsecure,
    };
    let server_transport = NetcodeServerTransport::new(server_config, server_socket).unwrap();
    let server = RenetServer::new(ConnectionConfig::default());

    let client_socket = UdpSocket::bind("127.0.0.1:0").unwrap();
    let authentication = ClientAuthentication::Unsecure {
        protocol_id: PROTOCOL_ID,
        client_id: CLIENT_ID,
        server_addr,
        user_data: None,
    };
    let client_transport = NetcodeClientTransport::new(Duration::ZERO, authentication, client_socket).unwrap();
    let client = RenetClient::new(ConnectionConfig::default());

    (server, server_transport, client, client_transport)
}

fn server_tick(server: &mut RenetServer, transport: &mut NetcodeServerTransport) {
    server.update(TICK);
    transport.update(TICK, server).unwrap();
    transport.send_packets(server);
    // let the loopback datagrams land
    sleep(Duration::from_millis(2));
}

/// Drives both ends until the handshake has completed on both sides.
fn connect(
    server: &mut RenetServer,
    server_transport: &mut NetcodeServerTransport,
    client: &mut RenetClient,
    client_transport: &mut NetcodeClientTransport,
) {
    let mut connected = false;
    for _ in 0..200 {
        client.update(TICK);
        client_transport.update(TICK, client).unwrap();
        let _ = client_transport.send_packets(client);
        sleep(Duration::from_millis(2));
        server_tick(server, server_transport);
        while let Some(event) = server.get_event() {
            if let ServerEvent::ClientConnected { client_id } = event {
                assert_eq!(client_id, CLIENT_ID);
                connected = true;
            }
        }
        if connected && client.is_connected() {
            return;
        }
    }
    panic!("handshake did not complete");
}

#[test]
fn messages_submitted_while_connecting_are_held_until_connected() {
    let (mut server, mut server_transport, mut client, mut client_transport) = setup();

    // Submitted before the handshake has even started.
    client.send_message(DefaultChannel::Unreliable, b"early bird".to_vec());
    client.send_message(DefaultChannel::ReliableOrdered, b"early worm".to_vec());

    // Nothing can be sealed yet: not an error, and the messages stay queued.
    assert!(client_transport.send_packets(&mut client).is_ok());

    let mut connected = false;
    let mut got_unreliable = None;
    let mut got_reliable = None;
    for _ in 0..200 {
        client.update(TICK);
        client_transport.update(TICK, &mut client).unwrap();
        // every flush, during the handshake (a no-op) or after it, succeeds
        client_transport.send_packets(&mut client).unwrap();
        sleep(Duration::from_millis(2));

        server_tick(&mut server, &mut server_transport);
        while let Some(event) = server.get_event() {
            if let ServerEvent::ClientConnected { client_id } = event {
                assert_eq!(client_id, CLIENT_ID);
                connected = true;
            }
        }
        if connected {
            if let Some(m) = server.receive_message(CLIENT_ID, DefaultChannel::Unreliable) {
                assert!(got_unreliable.is_none(), "delivered at most once");
                got_unreliable = Some(m);
            }
            if let Some(m) = server.receive_message(CLIENT_ID, DefaultChannel::ReliableOrdered) {
                assert!(got_reliable.is_none(), "delivered exactly once");
                got_reliable = Some(m);
            }
        }
    }
    assert!(client.is_connected());
    assert_eq!(got_reliable.as_deref(), Some(&b"early worm"[..]));
    // Used to be dropped by a flush that could not seal it; now it waited for the handshake.
    assert_eq!(got_unreliable.as_deref(), Some(&b"early bird"[..]));
}

#[test]
fn update_that_reads_the_server_disconnect_reports_it_itself() {
    let (mut server, mut server_transport, mut client, mut client_transport) = setup();
    connect(&mut server, &mut server_transport, &mut client, &mut client_transport);

    // The server ends the session.
    server.disconnect(CLIENT_ID);
    server_tick(&mut server, &mut server_transport);
    sleep(Duration::from_millis(20));

    let mut reported = false;
    for _ in 0..50 {
        client.update(TICK);
        let result = client_transport.update(TICK, &mut client);
        if client_transport.disconnect_reason().is_some() {
            assert_eq!(
                client_transport.disconnect_reason(),
                Some(NetcodeDisconnectReason::DisconnectedByServer)
            );
            match result {
                Err(NetcodeTransportError::Netcode(NetcodeError::Disconnected(NetcodeDisconnectReason::DisconnectedByServer))) => {}
                other => panic!("the update that ended the session returned {other:?}"),
            }
            assert!(
                client.is_disconnected(),
                "message layer mirrors the netcode session within the same update"
            );
            assert_eq!(client.disconnect_reason(), Some(renet::DisconnectReason::Transport));
            reported = true;
            break;
        }
        assert!(result.is_ok());
        sleep(Duration::from_millis(2));
    }
    assert!(reported);

    // Still final afterwards, as before.
    let again = client_transport.update(TICK, &mut client);
    assert!(matches!(
        again,
        Err(NetcodeTransportError::Netcode(NetcodeError::Disconnected(
            NetcodeDisconnectReason::DisconnectedByServer
        )))
    ));
    let flush = client_transport.send_packets(&mut client);
    assert!(matches!(flush, Err(NetcodeTransportError::Netcode(NetcodeError::Disconnected(_)))));
}

#[test]
fn transport_error_exposes_its_source() {
    let netcode: NetcodeTransportError = NetcodeError::ClientNotConnected.into();
    assert!(netcode.source().is_some());
    let io: NetcodeTransportError = std::io::Error::new(std::io::ErrorKind::Other, "boom").into();
    assert!(io.source().is_some());
    let renet: NetcodeTransportError = renet::DisconnectReason::Transport.into();
    assert!(renet.source().is_none());
}
