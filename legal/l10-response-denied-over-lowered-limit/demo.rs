//! Demonstration: a half-open session answering its challenge after the client limit was lowered.
//!
//! PASSES with the change (the response is answered with a small "connection denied" datagram and
//! the number of connected clients stays within the current limit), FAILS on the original code
//! (the response is accepted and the server holds 2 clients under a limit of 1).

use std::{net::SocketAddr, time::Duration};

use renetcode::{
    ClientAuthentication, ConnectToken, DisconnectReason, NetcodeClient, NetcodeServer, ServerAuthentication, ServerConfig, ServerResult,
};

const KEY: &[u8; 32] = b"an example very very secret key.";
const PROTOCOL_ID: u64 = 7;

fn new_client(client_id: u64, server_addr: SocketAddr) -> NetcodeClient {
    let connect_token = ConnectToken::generate(Duration::ZERO, PROTOCOL_ID, 30, client_id, 15, vec![server_addr], None, KEY).unwrap();
    NetcodeClient::new(Duration::ZERO, ClientAuthentication::Secure { connect_token }).unwrap()
}

/// Sends the client's next handshake datagram, hands the server's answer (if any) to the client.
/// Returns (kind of server result, request length, reply length).
fn exchange(server: &mut NetcodeServer, client: &mut NetcodeClient, addr: SocketAddr) -> (&'static str, usize, usize) {
    let (packet, _) = client.update(Duration::from_millis(300)).expect("client has a handshake packet to send");
    let request_len = packet.len();
    match server.process_packet(addr, packet) {
        ServerResult::PacketToSend { addr: to, payload } => {
            assert_eq!(to, addr);
            let len = payload.len();
            client.process_packet(payload);
            ("packet", request_len, len)
        }
        ServerResult::ClientConnected { addr: to, payload, .. } => {
            assert_eq!(to, addr);
            let len = payload.len();
            client.process_packet(payload);
            ("connected", request_len, len)
        }
        ServerResult::None => ("none", request_len, 0),
        _ => ("other", request_len, 0),
    }
}

#[test]
fn response_after_limit_was_lowered_is_denied() {
    let server_addr: SocketAddr = "127.0.0.1:5000".parse().unwrap();
    let mut server = NetcodeServer::new(ServerConfig {
        current_time: Duration::ZERO,
        max_clients: 2,
        protocol_id: PROTOCOL_ID,
        public_addresses: vec![server_addr],
        authentication: ServerAuthentication::Secure { private_key: *KEY },
    });

    // Client 1 connects normally.
    let addr_a: SocketAddr = "127.0.0.1:3001".parse().unwrap();
    let mut client_a = new_client(1, server_addr);
    assert_eq!(exchange(&mut server, &mut client_a, addr_a).0, "packet");
    assert_eq!(exchange(&mut server, &mut client_a, addr_a).0, "connected");
    assert!(client_a.is_connected());

    // Client 2 gets its challenge while there is still room (1 of 2).
    let addr_b: SocketAddr = "127.0.0.1:3002".parse().unwrap();
    let mut client_b = new_client(2, server_addr);
    assert_eq!(exchange(&mut server, &mut client_b, addr_b).0, "packet");
    assert!(client_b.is_connecting());

    // The application lowers the limit: the server is now full (1 of 1).
    server.set_max_clients(1);

    // Client 2 answers the challenge.
    let (kind, response_len, reply_len) = exchange(&mut server, &mut client_b, addr_b);

    // With the change: denied, by one datagram smaller than the response, nobody connected.
    assert_eq!(kind, "packet", "the response must be answered by a denial, not by a connection");
    assert!(reply_len < response_len);
    assert_eq!(server.connected_clients(), 1);
    assert!(server.connected_clients() <= server.max_clients());
    assert!(!server.is_client_connected(2));
    assert!(client_b.is_disconnected());
    assert_eq!(client_b.disconnect_reason(), Some(DisconnectReason::ConnectionDenied));

    // The existing session is not disturbed.
    assert!(server.is_client_connected(1));
    let (_, packet) = client_a.generate_payload_packet(b"still here").unwrap();
    match server.process_packet(addr_a, packet) {
        ServerResult::Payload { client_id, payload } => {
            assert_eq!(client_id, 1);
            assert_eq!(payload, b"still here");
        }
        _ => panic!("payload of the connected client was not accepted"),
    }

    // With room again, a fresh token for client 2 connects as usual.
    server.set_max_clients(2);
    let mut client_b2 = new_client(2, server_addr);
    assert_eq!(exchange(&mut server, &mut client_b2, addr_b).0, "packet");
    assert_eq!(exchange(&mut server, &mut client_b2, addr_b).0, "connected");
    assert!(client_b2.is_connected());
    assert_eq!(server.connected_clients(), 2);
}
