//! Demonstrates the per-session sequence blocks of the netcode server: the packets a server sends to a
//! connected client no longer start at sequence 0 for every session. Session number n (1, 2, ...) of a server
//! sends with sequences n << 32, (n << 32) + 1, ... so a connect token presented a second time from the same
//! address (same keys) never sees a (key, sequence) pair twice.
//!
//! Only the public API is used, the sequence number is read from the clear-text head of the datagram
//! (netcode standard: prefix byte, high nibble = number of sequence bytes, then the sequence in little endian).

use std::{net::SocketAddr, time::Duration};

use renetcode::{ClientAuthentication, ConnectToken, NetcodeClient, NetcodeServer, ServerAuthentication, ServerConfig, ServerResult};

const KEY: &[u8; 32] = b"an example very very secret key.";
const PROTOCOL_ID: u64 = 7;
const CLIENT_ID: u64 = 4;
const BLOCK: u64 = 1 << 32;

fn packet_type(datagram: &[u8]) -> u8 {
    datagram[0] & 0xF
}

fn sequence_of(datagram: &[u8]) -> u64 {
    let len = (datagram[0] >> 4) as usize;
    assert!((1..=8).contains(&len), "bad sequence length {len}");
    let mut bytes = [0u8; 8];
    bytes[..len].copy_from_slice(&datagram[1..1 + len]);
    u64::from_le_bytes(bytes)
}

fn new_server() -> NetcodeServer {
    NetcodeServer::new(ServerConfig {
        current_time: Duration::ZERO,
        max_clients: 16,
        protocol_id: PROTOCOL_ID,
        public_addresses: vec!["127.0.0.1:5000".parse().unwrap()],
        authentication: ServerAuthentication::Secure { private_key: *KEY },
    })
}

fn token(server: &NetcodeServer, client_id: u64) -> ConnectToken {
    ConnectToken::generate(Duration::ZERO, PROTOCOL_ID, 30, client_id, 5, server.addresses(), None, KEY).unwrap()
}

/// Runs the handshake, returns the connected client and the datagram that told it so (the first one of the session).
fn connect(server: &mut NetcodeServer, addr: SocketAddr, connect_token: ConnectToken) -> (NetcodeClient, Vec<u8>) {
    let mut client = NetcodeClient::new(Duration::ZERO, ClientAuthentication::Secure { connect_token }).unwrap();

    let (request, _) = client.update(Duration::ZERO).unwrap();
    match server.process_packet(addr, request) {
        ServerResult::PacketToSend { payload, .. } => {
            // Packets sent before the session exists keep using the upper half of the sequence space
            assert_eq!(packet_type(payload), 2, "challenge");
            assert!(sequence_of(payload) >= 1 << 63);
            assert!(client.process_packet(payload).is_none());
        }
        other => panic!("expected a challenge, got {other:?}"),
    }

    let (response, _) = client.update(Duration::ZERO).unwrap();
    let first = match server.process_packet(addr, response) {
        ServerResult::ClientConnected { client_id, payload, .. } => {
            assert_eq!(client_id, client.client_id());
            let first = payload.to_vec();
            assert!(client.process_packet(payload).is_none());
            first
        }
        other => panic!("expected ClientConnected, got {other:?}"),
    };
    assert!(client.is_connected());
    (client, first)
}

#[test]
fn every_session_sends_with_its_own_sequence_block() {
    let mut server = new_server();
    let addr: SocketAddr = "127.0.0.1:3000".parse().unwrap();
    let connect_token = token(&server, CLIENT_ID);
    let mut token_bytes = Vec::new();
    connect_token.write(&mut token_bytes).unwrap();

    // First session of this server: block 1 (the unchanged library starts every session at sequence 0)
    let (mut client, first) = connect(&mut server, addr, connect_token);
    assert_eq!(packet_type(&first), 4, "keep-alive");
    assert_eq!(sequence_of(&first), BLOCK);
    // 1 prefix + 5 sequence + 8 body + 16 tag (one sequence byte only in the unchanged library)
    assert_eq!(first.len(), 30);

    // Payloads and keep-alives go on counting one by one inside the block and the client takes them all
    let mut last = sequence_of(&first);
    for i in 0..3u8 {
        let (to, datagram) = server.generate_payload_packet(CLIENT_ID, &[i; 100]).unwrap();
        assert_eq!(to, addr);
        assert_eq!(sequence_of(datagram), last + 1);
        last += 1;
        assert_eq!(client.process_packet(datagram), Some(&[i; 100][..]));
    }
    server.update(Duration::from_millis(250));
    match server.update_client(CLIENT_ID) {
        ServerResult::PacketToSend { payload, .. } => {
            assert_eq!(packet_type(payload), 4);
            assert_eq!(sequence_of(payload), last + 1);
            last += 1;
            assert!(client.process_packet(payload).is_none());
        }
        other => panic!("expected a keep-alive, got {other:?}"),
    }

    // The disconnect packet closes the block's used part
    match server.disconnect(CLIENT_ID) {
        ServerResult::ClientDisconnected { payload: Some(payload), .. } => {
            assert_eq!(packet_type(payload), 6);
            assert_eq!(sequence_of(payload), last + 1);
            assert!(client.process_packet(payload).is_none());
            assert!(client.is_disconnected());
        }
        other => panic!("expected ClientDisconnected, got {other:?}"),
    }

    // The same token again from the same address is a legitimate second session with the very same keys:
    // it sends in block 2, above everything the first session ever used.
    let same_token = ConnectToken::read(&mut token_bytes.as_slice()).unwrap();
    let (_client, first_again) = connect(&mut server, addr, same_token);
    assert_eq!(sequence_of(&first_again), 2 * BLOCK);
    assert!(sequence_of(&first_again) > last + 1);

    // Blocks are handed out per accepted session, whoever the client is
    let other_addr: SocketAddr = "127.0.0.1:3001".parse().unwrap();
    let other_token = token(&server, CLIENT_ID + 1);
    let (_other, first_other) = connect(&mut server, other_addr, other_token);
    assert_eq!(sequence_of(&first_other), 3 * BLOCK);

    // ... and the running session is not affected by it
    let (_, datagram) = server.generate_payload_packet(CLIENT_ID, &[9; 10]).unwrap();
    assert_eq!(sequence_of(datagram), 2 * BLOCK + 1);
}
