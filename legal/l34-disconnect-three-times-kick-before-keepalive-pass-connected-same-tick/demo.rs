//! Shows the low-level behaviour of the UDP transports that changed:
//!  * a disconnect datagram is put on the wire three times (same bytes), by the server and by the client;
//!  * the client transport tells the message layer about a completed handshake in the very update()
//!    that read the completing keep-alive, not one update later.
use std::{
    io::ErrorKind,
    net::{SocketAddr, UdpSocket},
    thread::sleep,
    time::Duration,
};

use renet::{ConnectionConfig, DefaultChannel, RenetClient, RenetServer, ServerEvent};
use renet_netcode::{
    ClientAuthentication, NetcodeClientTransport, NetcodeServerTransport, NetcodeTransportError, ServerAuthentication, ServerConfig,
};

const PROTOCOL_ID: u64 = 7;
const CLIENT_ID: u64 = 42;
const TICK: Duration = Duration::from_millis(16);
const COPIES: usize = 3;

struct Stack {
    server: RenetServer,
    server_transport: NetcodeServerTransport,
    /// Second handle on the server's socket (same receive queue).
    server_tap: UdpSocket,
    client: RenetClient,
    client_transport: NetcodeClientTransport,
    /// Second handle on the client's socket (same receive queue).
    client_tap: UdpSocket,
}

fn new_stack() -> Stack {
    let server_socket = UdpSocket::bind("127.0.0.1:0").unwrap();
    let server_addr: SocketAddr = server_socket.local_addr().unwrap();
    let server_tap = server_socket.try_clone().unwrap();
    let server_config = ServerConfig {
        current_time: Duration::ZERO,
        max_clients: 4,
        protocol_id: PROTOCOL_ID,
        public_addresses: vec![server_addr],
        authentication: ServerAuthentication::Unsecure,
    };
    let server_transport = NetcodeServerTransport::new(server_config, server_socket).unwrap();

    let client_socket = UdpSocket::bind("127.0.0.1:0").unwrap();
    let client_tap = client_socket.try_clone().unwrap();
    let authentication = ClientAuthentication::Unsecure {
        protocol_id: PROTOCOL_ID,
        client_id: CLIENT_ID,
        server_addr,
        user_data: None,
    };
    let client_transport = NetcodeClientTransport::new(Duration::ZERO, authentication, client_socket).unwrap();

    Stack {
        server: RenetServer::new(ConnectionConfig::default()),
        server_transport,
        server_tap,
        client: RenetClient::new(ConnectionConfig::default()),
        client_transport,
        client_tap,
    }
}

/// Lets the loopback interface deliver what was just sent.
fn settle() {
    sleep(Duration::from_millis(3));
}

impl Stack {
    fn tick(&mut self) {
        self.client.update(TICK);
        self.client_transport.update(TICK, &mut self.client).unwrap();
        self.client_transport.send_packets(&mut self.client).unwrap();
        settle();
        self.server.update(TICK);
        self.server_transport.update(TICK, &mut self.server).unwrap();
        self.server_transport.send_packets(&mut self.server);
        settle();
    }

    fn connect(&mut self) {
        for _ in 0..50 {
            self.tick();
            if self.client.is_connected() && self.server.is_connected(CLIENT_ID) {
                break;
            }
        }
        assert!(self.client.is_connected() && self.server.is_connected(CLIENT_ID));
        assert_eq!(self.server.get_event(), Some(ServerEvent::ClientConnected { client_id: CLIENT_ID }));
        assert_eq!(self.server.get_event(), None);

        // Exchange a message in both directions, then let everything in flight land.
        self.client.send_message(DefaultChannel::ReliableOrdered, b"ping".to_vec());
        self.server.send_message(CLIENT_ID, DefaultChannel::ReliableOrdered, b"pong".to_vec());
        for _ in 0..5 {
            self.tick();
        }
        assert_eq!(
            self.server.receive_message(CLIENT_ID, DefaultChannel::ReliableOrdered).unwrap().as_ref(),
            b"ping".as_slice()
        );
        assert_eq!(
            self.client.receive_message(DefaultChannel::ReliableOrdered).unwrap().as_ref(),
            b"pong".as_slice()
        );
    }
}

/// Everything waiting in the socket's receive queue.
fn drain(tap: &UdpSocket) -> Vec<Vec<u8>> {
    let mut datagrams = vec![];
    let mut buffer = [0u8; 1500];
    loop {
        match tap.recv_from(&mut buffer) {
            Ok((len, _)) => datagrams.push(buffer[..len].to_vec()),
            Err(e) if e.kind() == ErrorKind::WouldBlock => return datagrams,
            Err(e) => panic!("{e}"),
        }
    }
}

#[test]
fn server_disconnect_datagram_is_sent_three_times_and_nothing_else() {
    let mut stack = new_stack();
    stack.connect();
    // The client reads what the last tick left in its socket and stays quiet.
    stack.client.update(TICK);
    stack.client_transport.update(TICK, &mut stack.client).unwrap();
    settle();
    assert!(drain(&stack.client_tap).is_empty());

    // The application kicks the client: the transport closes the session in its next update.
    stack.server.disconnect(CLIENT_ID);
    stack.server.update(TICK);
    stack.server_transport.update(TICK, &mut stack.server).unwrap();
    stack.server_transport.send_packets(&mut stack.server);
    settle();
    assert_eq!(stack.server_transport.connected_clients(), 0);
    assert!(matches!(stack.server.get_event(), Some(ServerEvent::ClientDisconnected { client_id: CLIENT_ID, .. })));
    assert_eq!(stack.server.get_event(), None);

    let datagrams = drain(&stack.client_tap);
    assert_eq!(datagrams.len(), COPIES, "copies of the disconnect datagram on the wire");
    assert!(datagrams.iter().all(|d| d == &datagrams[0]), "the copies are the same sealed bytes");

    // A closed session stays silent.
    for _ in 0..10 {
        stack.server.update(TICK);
        stack.server_transport.update(TICK, &mut stack.server).unwrap();
        stack.server_transport.send_packets(&mut stack.server);
    }
    settle();
    assert!(drain(&stack.client_tap).is_empty());
    assert_eq!(stack.server.get_event(), None);
}

#[test]
fn client_disconnect_datagram_is_sent_three_times_and_ends_the_session_once() {
    // On the wire.
    let mut stack = new_stack();
    stack.connect();
    // The server reads what the last tick left in its socket and stays quiet.
    stack.server.update(TICK);
    stack.server_transport.update(TICK, &mut stack.server).unwrap();
    settle();
    assert!(drain(&stack.server_tap).is_empty());
    stack.client.disconnect();
    let result = stack.client_transport.update(TICK, &mut stack.client);
    assert!(matches!(result, Err(NetcodeTransportError::Renet(renet::DisconnectReason::DisconnectedByClient))));
    settle();
    let datagrams = drain(&stack.server_tap);
    assert_eq!(datagrams.len(), COPIES, "copies of the disconnect datagram on the wire");
    assert!(datagrams.iter().all(|d| d == &datagrams[0]), "the copies are the same sealed bytes");
    // Nothing follows.
    for _ in 0..10 {
        assert!(stack.client_transport.update(TICK, &mut stack.client).is_err());
        assert!(stack.client_transport.send_packets(&mut stack.client).is_err());
    }
    settle();
    assert!(drain(&stack.server_tap).is_empty());

    // Consumed by the server transport: one disconnect, reported once, no reply to the extra copies.
    let mut stack = new_stack();
    stack.connect();
    stack.client_transport.disconnect();
    settle();
    drain(&stack.client_tap); // leftovers of the last tick, the closed client no longer reads them
    stack.server.update(TICK);
    stack.server_transport.update(TICK, &mut stack.server).unwrap();
    stack.server_transport.send_packets(&mut stack.server);
    settle();
    assert!(matches!(stack.server.get_event(), Some(ServerEvent::ClientDisconnected { client_id: CLIENT_ID, .. })));
    assert_eq!(stack.server.get_event(), None);
    assert_eq!(stack.server_transport.connected_clients(), 0);
    assert!(drain(&stack.client_tap).is_empty());
}

#[test]
fn client_message_layer_is_connected_in_the_update_that_reads_the_keep_alive() {
    let mut stack = new_stack();
    let mut server_connected = false;
    for _ in 0..50 {
        stack.client.update(TICK);
        stack.client_transport.update(TICK, &mut stack.client).unwrap();
        settle();
        stack.server.update(TICK);
        stack.server_transport.update(TICK, &mut stack.server).unwrap();
        settle();
        if let Some(event) = stack.server.get_event() {
            assert_eq!(event, ServerEvent::ClientConnected { client_id: CLIENT_ID });
            server_connected = true;
            break;
        }
    }
    assert!(server_connected);

    // The keep-alive that completes the handshake now waits in the client's socket.
    assert!(stack.client.is_connecting());
    stack.client.update(TICK);
    stack.client_transport.update(TICK, &mut stack.client).unwrap();
    assert!(stack.client.is_connected(), "connected in the same update that read the keep-alive");
    stack.client_transport.send_packets(&mut stack.client).unwrap();
}
