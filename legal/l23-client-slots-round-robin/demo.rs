//! Demonstrates the slot policy of the netcode server: free slots are handed out round-robin
//! (first free slot after the one most recently assigned, wrapping around) instead of
//! "lowest free slot first". Visible through `clients_slot()` and the order of `clients_id()`.

use std::{net::SocketAddr, time::Duration};

use renetcode::{ClientAuthentication, NetcodeClient, NetcodeServer, ServerAuthentication, ServerConfig, ServerResult};

const PROTOCOL_ID: u64 = 7;

fn server_addr() -> SocketAddr {
    "127.0.0.1:5000".parse().unwrap()
}

fn client_addr(client_id: u64) -> SocketAddr {
    SocketAddr::new("127.0.0.1".parse().unwrap(), 6000 + client_id as u16)
}

fn connect(server: &mut NetcodeServer, client_id: u64) -> NetcodeClient {
    let auth = ClientAuthentication::Unsecure {
        protocol_id: PROTOCOL_ID,
        client_id,
        server_addr: server_addr(),
        user_data: None,
    };
    let mut client = NetcodeClient::new(Duration::ZERO, auth).unwrap();
    let addr = client_addr(client_id);

    let (request, _) = client.update(Duration::ZERO).unwrap();
    match server.process_packet(addr, request) {
        ServerResult::PacketToSend { payload, .. } => assert!(client.process_packet(payload).is_none()),
        other => panic!("expected a challenge, got {:?}", other),
    }

    let (response, _) = client.update(Duration::ZERO).unwrap();
    match server.process_packet(addr, response) {
        ServerResult::ClientConnected {
            client_id: id, payload, ..
        } => {
            assert_eq!(id, client_id);
            assert!(client.process_packet(payload).is_none());
        }
        other => panic!("expected ClientConnected, got {:?}", other),
    }
    assert!(client.is_connected());
    assert!(server.is_client_connected(client_id));
    client
}

fn disconnect(server: &mut NetcodeServer, client_id: u64) {
    match server.disconnect(client_id) {
        ServerResult::ClientDisconnected { client_id: id, addr, .. } => {
            assert_eq!(id, client_id);
            assert_eq!(addr, client_addr(client_id));
        }
        other => panic!("expected ClientDisconnected, got {:?}", other),
    }
    assert!(!server.is_client_connected(client_id));
}

#[test]
fn freed_slot_is_not_reused_before_the_rest_of_the_table() {
    let mut server = NetcodeServer::new(ServerConfig {
        current_time: Duration::ZERO,
        max_clients: 4,
        protocol_id: PROTOCOL_ID,
        public_addresses: vec![server_addr()],
        authentication: ServerAuthentication::Unsecure,
    });

    let _c1 = connect(&mut server, 1);
    let _c2 = connect(&mut server, 2);
    let _c3 = connect(&mut server, 3);
    assert_eq!(server.clients_slot(), vec![0, 1, 2]);
    assert_eq!(server.clients_id(), vec![1, 2, 3]);

    // Client 2 leaves slot 1. The next client does not fill that hole, it gets the slot after
    // the most recently assigned one (slot 3).
    disconnect(&mut server, 2);
    let _c9 = connect(&mut server, 9);
    assert_eq!(server.clients_slot(), vec![0, 2, 3]);
    assert_eq!(server.clients_id(), vec![1, 3, 9]);

    // The search wraps around the table: after slot 3 comes slot 0 (occupied), then slot 1.
    let _c10 = connect(&mut server, 10);
    assert_eq!(server.clients_slot(), vec![0, 1, 2, 3]);
    assert_eq!(server.clients_id(), vec![1, 10, 3, 9]);

    // Slots 0 and 3 become free, the cursor stands after slot 1: slot 3 is taken before slot 0.
    disconnect(&mut server, 1);
    disconnect(&mut server, 9);
    let _c11 = connect(&mut server, 11);
    assert_eq!(server.clients_slot(), vec![1, 2, 3]);
    assert_eq!(server.clients_id(), vec![10, 3, 11]);

    // Every lookup by id still refers to the right session, and a full table still refuses.
    let _c12 = connect(&mut server, 12);
    assert_eq!(server.clients_id(), vec![12, 10, 3, 11]);
    for id in [12u64, 10, 3, 11] {
        assert_eq!(server.client_addr(id), Some(client_addr(id)));
    }
    assert_eq!(server.connected_clients(), 4);
}
