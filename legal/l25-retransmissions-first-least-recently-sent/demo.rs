//! Demonstrates the send policy of the reliable channel: retransmissions are served before first
//! transmissions, the least recently transmitted unit first. Uses only the public API, the few header
//! bytes of the packets are read by hand (all numbers used here are below 64, so every varint is one byte).

use std::time::Duration;

use renet::{ChannelConfig, ConnectionConfig, RenetClient, SendType};

const SLICE_SIZE: usize = 1200;

fn config(available_bytes_per_tick: u64, resend_time: Duration) -> ConnectionConfig {
    let channels = vec![ChannelConfig {
        channel_id: 0,
        max_memory_usage_bytes: 1024 * 1024,
        send_type: SendType::ReliableOrdered { resend_time },
    }];
    ConnectionConfig {
        available_bytes_per_tick,
        server_channels_config: channels.clone(),
        client_channels_config: channels,
    }
}

/// Slice indices of the ReliableSlice packets of one flush, in the order they were produced.
fn slice_indices(packets: &[Vec<u8>]) -> Vec<u8> {
    packets
        .iter()
        .filter(|p| p[0] == 2)
        .map(|p| {
            // type, sequence, channel id, message id, slice index
            assert!(p[1] < 64 && p[3] < 64 && p[4] < 64);
            p[4]
        })
        .collect()
}

/// Message ids carried by the SmallReliable packets of one flush, in wire order.
fn small_message_ids(packets: &[Vec<u8>]) -> Vec<u8> {
    let mut ids = vec![];
    for p in packets.iter().filter(|p| p[0] == 0) {
        // type, sequence, channel id, u16 message count, then (id, len, bytes) per message
        assert!(p[1] < 64);
        let count = u16::from_be_bytes([p[3], p[4]]) as usize;
        let mut at = 5;
        for _ in 0..count {
            let (id, len) = (p[at], p[at + 1]);
            assert!(id < 64 && len < 64);
            ids.push(id);
            at += 2 + len as usize;
        }
        assert_eq!(at, p.len());
    }
    ids
}

/// Budget of two slices per tick, a message of six slices, resend_time of 30 ms, ticks of 16 ms, no acks:
/// at 32 ms slices 0 and 1 are due again and take the budget before the never sent slices 4 and 5.
/// (A rotating slice cursor would send 4 and 5 there.)
#[test]
fn due_retransmissions_are_served_before_first_transmissions() {
    let tick = Duration::from_millis(16);
    let mut sender = RenetClient::new(config(2 * SLICE_SIZE as u64, Duration::from_millis(30)));
    let mut receiver = RenetClient::new(config(2 * SLICE_SIZE as u64, Duration::from_millis(30)));
    let message: Vec<u8> = (0..6 * SLICE_SIZE).map(|i| (i % 251) as u8).collect();
    sender.send_message(0, message.clone());

    // t = 0 ms
    assert_eq!(slice_indices(&sender.get_packets_to_send()), vec![0, 1]);
    // t = 16 ms, nothing is due again yet, the next never sent slices go out
    sender.update(tick);
    assert_eq!(slice_indices(&sender.get_packets_to_send()), vec![2, 3]);
    // t = 32 ms, slices 0 and 1 were sent 32 ms >= resend_time ago
    sender.update(tick);
    assert_eq!(slice_indices(&sender.get_packets_to_send()), vec![0, 1]);
    // t = 48 ms, slices 2 and 3 were sent 32 ms ago, 0 and 1 only 16 ms ago
    sender.update(tick);
    assert_eq!(slice_indices(&sender.get_packets_to_send()), vec![2, 3]);

    // Once the peer acknowledges what it gets, the rest follows and the message arrives intact.
    let mut received = None;
    for _ in 0..20 {
        sender.update(tick);
        receiver.update(tick);
        let packets = sender.get_packets_to_send();
        assert!(packets.iter().map(|p| p.len()).sum::<usize>() <= 2 * (SLICE_SIZE + 100));
        for packet in packets {
            receiver.process_packet(&packet);
        }
        for packet in receiver.get_packets_to_send() {
            sender.process_packet(&packet);
        }
        if let Some(m) = receiver.receive_message(0) {
            received = Some(m);
            break;
        }
    }
    assert_eq!(received.as_deref(), Some(&message[..]));
    assert!(sender.disconnect_reason().is_none() && receiver.disconnect_reason().is_none());
}

/// Ample budget, resend_time of 100 ms, no acks. Message 0 is transmitted at 0 and 100 ms, message 1 at 60 ms.
/// At 200 ms both are due: message 1 waited longer since its last transmission and is placed first.
/// (Serving in message id order would place message 0 first.)
#[test]
fn least_recently_transmitted_message_goes_first() {
    let mut sender = RenetClient::new(config(60_000, Duration::from_millis(100)));

    sender.send_message(0, vec![7u8; 10]);
    assert_eq!(small_message_ids(&sender.get_packets_to_send()), vec![0]); // t = 0

    sender.update(Duration::from_millis(60));
    sender.send_message(0, vec![8u8; 10]);
    assert_eq!(small_message_ids(&sender.get_packets_to_send()), vec![1]); // t = 60

    sender.update(Duration::from_millis(40));
    assert_eq!(small_message_ids(&sender.get_packets_to_send()), vec![0]); // t = 100, message 1 is not due

    sender.update(Duration::from_millis(100));
    sender.send_message(0, vec![9u8; 10]);
    // t = 200: retransmissions 1 (last sent at 60) and 0 (last sent at 100), then the new message 2
    assert_eq!(small_message_ids(&sender.get_packets_to_send()), vec![1, 0, 2]);
}
