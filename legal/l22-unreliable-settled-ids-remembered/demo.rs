//! Demonstrates the settled-message-id bookkeeping of the unreliable receive channel:
//! stray slices (network duplicates, leftovers of a refused message) of a sliced message whose
//! fate is already settled no longer open a phantom reassembly.
//!
//! Passes with the change, fails on the unchanged tree.

use std::time::Duration;

use bytes::Bytes;
use renet::{ChannelConfig, ConnectionConfig, RenetClient, SendType};

const CHANNEL: u8 = 0;

fn config(receive_budget: usize) -> ConnectionConfig {
    let channel = |max_memory_usage_bytes| ChannelConfig {
        channel_id: CHANNEL,
        max_memory_usage_bytes,
        send_type: SendType::Unreliable,
    };
    ConnectionConfig {
        available_bytes_per_tick: 60_000,
        // what the receiving endpoint (a RenetClient) receives on
        server_channels_config: vec![channel(receive_budget)],
        // what the sending endpoint (also a RenetClient) sends on
        client_channels_config: vec![channel(1_000_000)],
    }
}

fn message(len: usize, seed: u8) -> Bytes {
    (0..len).map(|i| (i as u8).wrapping_mul(31).wrapping_add(seed)).collect::<Vec<u8>>().into()
}

fn packets_of(sender: &mut RenetClient, message: &Bytes) -> Vec<Vec<u8>> {
    sender.send_message(CHANNEL, message.clone());
    sender.get_packets_to_send()
}

/// Every datagram of a sliced unreliable message is duplicated by the network after the message
/// was completed. Unchanged tree: the duplicates rebuild the message and it is handed over twice.
/// Changed tree: the id is settled, the duplicates are ignored.
#[test]
fn duplicated_slices_of_a_completed_message_are_ignored() {
    let mut sender = RenetClient::new(config(1_000_000));
    let mut receiver = RenetClient::new(config(1_000_000));

    let sent = message(3000, 1);
    let packets = packets_of(&mut sender, &sent);
    assert_eq!(packets.len(), 3);

    for packet in &packets {
        receiver.process_packet(packet);
    }
    for packet in &packets {
        receiver.process_packet(packet);
    }
    assert_eq!(receiver.disconnect_reason(), None);

    assert_eq!(receiver.receive_message(CHANNEL), Some(sent.clone()));
    assert_eq!(receiver.receive_message(CHANNEL), None, "duplicates must not rebuild a settled message");

    // More than 3 s later the id is forgotten again (the same duplicates count as a new message)
    receiver.update(Duration::from_secs(4));
    for packet in &packets {
        receiver.process_packet(packet);
    }
    assert_eq!(receiver.receive_message(CHANNEL), Some(sent));
    assert_eq!(receiver.receive_message(CHANNEL), None);
}

/// A sliced message refused for lack of memory is dropped as a whole. Unchanged tree: once memory
/// is free again its next slice opens a reassembly that can never complete but occupies the budget
/// for 3 s, so the following message is refused too. Changed tree: the leftover slice is ignored and
/// the following message is delivered.
#[test]
fn leftover_slice_of_a_refused_message_does_not_pin_memory() {
    let mut sender = RenetClient::new(config(5000));
    let mut receiver = RenetClient::new(config(5000));

    let a = message(3000, 1); // reserves 3600 while incomplete, 3000 once complete
    let b = message(2400, 2); // would reserve 2400
    let c = message(3000, 3); // reserves 3600

    for packet in packets_of(&mut sender, &a) {
        receiver.process_packet(&packet);
    }

    let packets_b = packets_of(&mut sender, &b);
    assert_eq!(packets_b.len(), 2);
    // 3000 + 2400 > 5000: refused
    receiver.process_packet(&packets_b[0]);

    // The application drains, the whole budget is free again
    assert_eq!(receiver.receive_message(CHANNEL), Some(a));
    // The rest of b arrives
    receiver.process_packet(&packets_b[1]);

    for packet in packets_of(&mut sender, &c) {
        receiver.process_packet(&packet);
    }
    assert_eq!(receiver.disconnect_reason(), None);
    assert_eq!(receiver.receive_message(CHANNEL), Some(c), "leftover slice of b must not occupy the budget");
    assert_eq!(receiver.receive_message(CHANNEL), None);
}
