// Demonstration of the behaviour difference introduced in
// renet/src/channel/unreliable.rs (SendChannelUnreliable::get_packets_to_send).
//
// PASSES with the change, FAILS on the original code.
//
// Original: an unreliable message of SLICE_SIZE - 1 (1199) or SLICE_SIZE (1200) bytes is, with its
// length prefix, larger than the small-message batch limit, so the "flush pending batch" branch is
// taken even when nothing is pending and an EMPTY SmallUnreliable packet (5 bytes, own sequence
// number) is emitted in front of the packet that carries the message.
// Changed: nothing pending => nothing flushed, only the packet carrying the message is emitted.
use bytes::Bytes;
use renet::{ConnectionConfig, DefaultChannel, RenetClient, RenetServer};

fn run(len: usize) -> (Vec<Vec<u8>>, Vec<Bytes>) {
    let mut server = RenetServer::new(ConnectionConfig::default());
    let mut client = RenetClient::new(ConnectionConfig::default());
    server.add_connection(7);

    let message: Vec<u8> = (0..len).map(|i| (i % 251) as u8).collect();
    client.send_message(DefaultChannel::Unreliable, Bytes::from(message));

    let packets = client.get_packets_to_send();
    for packet in packets.iter() {
        assert!(packet.len() <= 1300);
        server.process_packet_from(packet, 7).unwrap();
    }

    let mut received = vec![];
    while let Some(m) = server.receive_message(7, DefaultChannel::Unreliable) {
        received.push(m);
    }
    (packets, received)
}

#[test]
fn lone_full_size_unreliable_message_takes_one_packet() {
    for len in [1199usize, 1200] {
        let (packets, received) = run(len);

        // The message arrives intact exactly once, with or without the change.
        assert_eq!(received.len(), 1);
        assert_eq!(received[0].len(), len);
        assert!(received[0].iter().enumerate().all(|(i, b)| *b == (i % 251) as u8));

        // Difference: the original emits [empty SmallUnreliable (5 bytes), SmallUnreliable(message)].
        assert_eq!(
            packets.len(),
            1,
            "len {len}: expected a single packet, got sizes {:?}",
            packets.iter().map(|p| p.len()).collect::<Vec<_>>()
        );
        // type(1) + sequence varint(1) + channel(1) + count(2) + length varint(2) + payload
        assert_eq!(packets[0].len(), 7 + len);
        // first packet of the connection carries sequence number 0
        assert_eq!(packets[0][0], 1);
        assert_eq!(packets[0][1], 0);
    }
}

#[test]
fn batching_of_other_sizes_is_unchanged() {
    // 1198 bytes + 2 bytes prefix == 1200: fits the limit, one packet before and after the change.
    let (packets, received) = run(1198);
    assert_eq!(packets.len(), 1);
    assert_eq!(received.len(), 1);

    // A pending batch is still flushed in front of a message that does not fit with it.
    let mut client = RenetClient::new(ConnectionConfig::default());
    client.send_message(DefaultChannel::Unreliable, Bytes::from(vec![1u8; 10]));
    client.send_message(DefaultChannel::Unreliable, Bytes::from(vec![2u8; 1200]));
    client.send_message(DefaultChannel::Unreliable, Bytes::from(vec![3u8; 10]));
    let packets = client.get_packets_to_send();
    let sizes: Vec<usize> = packets.iter().map(|p| p.len()).collect();
    assert_eq!(sizes, vec![5 + 11, 5 + 1202, 5 + 11]);
}
