//! Demonstrates the observable difference of the client handshake change (public API only):
//!  1. handshake packets are resent after 50, 100, 200, 250, 250, ... ms instead of every 250 ms,
//!  2. connection requests do not use up sequence numbers, the first response is sealed with sequence 0,
//!  3. a payload that overtakes the confirming keep-alive completes the handshake and is surfaced.
use std::{net::SocketAddr, time::Duration};

use renetcode::{
    ClientAuthentication, ConnectToken, NetcodeClient, NetcodeServer, ServerAuthentication, ServerConfig, ServerResult,
};

const KEY: &[u8; 32] = b"an example very very secret key.";
const PROTOCOL_ID: u64 = 7;
const CLIENT_ID: u64 = 4;
const MS: Duration = Duration::from_millis(1);

fn client_addr() -> SocketAddr {
    "127.0.0.1:3000".parse().unwrap()
}

fn setup() -> (NetcodeServer, NetcodeClient) {
    let (server, client, _) = setup_with_token();
    (server, client)
}

fn setup_with_token() -> (NetcodeServer, NetcodeClient, ConnectToken) {
    let server = NetcodeServer::new(ServerConfig {
        current_time: Duration::ZERO,
        max_clients: 16,
        protocol_id: PROTOCOL_ID,
        public_addresses: vec!["127.0.0.1:5000".parse().unwrap()],
        authentication: ServerAuthentication::Secure { private_key: *KEY },
    });
    let token = ConnectToken::generate(Duration::ZERO, PROTOCOL_ID, 30, CLIENT_ID, 15, server.addresses(), None, KEY).unwrap();
    let client = NetcodeClient::new(Duration::ZERO, ClientAuthentication::Secure { connect_token: token.clone() }).unwrap();
    (server, client, token)
}

/// Advances the client in 1 ms steps and returns the times (ms) at which it produced a datagram.
fn send_times(client: &mut NetcodeClient, total_ms: u64) -> Vec<u64> {
    let mut times = vec![];
    if client.update(Duration::ZERO).is_some() {
        times.push(0);
    }
    for t in 1..=total_ms {
        if client.update(MS).is_some() {
            times.push(t);
        }
    }
    times
}

/// Hands one client datagram to the server and the server's answer (a challenge) back to the client.
fn exchange_request(server: &mut NetcodeServer, client: &mut NetcodeClient, request: &mut [u8]) {
    match server.process_packet(client_addr(), request) {
        ServerResult::PacketToSend { payload, .. } => assert!(client.process_packet(payload).is_none()),
        other => panic!("expected a challenge, got {other:?}"),
    }
}

#[test]
fn handshake_packets_back_off_from_50ms_to_the_send_rate() {
    let (mut server, mut client) = setup();

    // Requests (unchanged tree: 0, 250, 500, 750, 1000)
    assert_eq!(send_times(&mut client, 1000), vec![0, 50, 150, 350, 600, 850]);

    // The back-off restarts for the responses
    let mut request = client.update(Duration::from_millis(250)).unwrap().0.to_vec();
    exchange_request(&mut server, &mut client, &mut request);
    assert_eq!(send_times(&mut client, 700), vec![0, 50, 150, 350, 600]);

    // The gap between two handshake packets never exceeds the regular send rate of 250 ms
    let times = send_times(&mut client, 2000);
    assert!(times.windows(2).all(|w| w[1] - w[0] == 250), "{times:?}");
}

#[test]
fn requests_do_not_use_up_sequence_numbers() {
    let (mut server, mut client) = setup();

    // Three requests are sent (and lost) before one reaches the server
    let mut requests = 0;
    let mut last_request = vec![];
    while requests < 4 {
        if let Some((packet, _)) = client.update(Duration::from_millis(50)) {
            // Requests are not sealed: packet type 0 in the low nibble of the prefix byte
            assert_eq!(packet[0] & 0xF, 0);
            last_request = packet.to_vec();
            requests += 1;
        }
    }
    exchange_request(&mut server, &mut client, &mut last_request);

    let (response, _) = client.update(Duration::ZERO).unwrap();
    // prefix byte: type 3 (response) with a one byte sequence, then the sequence itself
    assert_eq!(response[0], 3 | (1 << 4));
    assert_eq!(response[1], 0, "the first sealed packet of the client uses sequence 0 (unchanged tree: 4)");

    // The next sealed packets continue from there, no number is used twice
    let (response, _) = client.update(Duration::from_millis(250)).unwrap();
    assert_eq!(response[1], 1);
    let mut response = response.to_vec();
    match server.process_packet(client_addr(), &mut response) {
        ServerResult::ClientConnected { client_id, payload, .. } => {
            assert_eq!(client_id, CLIENT_ID);
            assert!(client.process_packet(payload).is_none());
        }
        other => panic!("expected a connection, got {other:?}"),
    }
    assert!(client.is_connected());
    let (keep_alive, _) = client.update(Duration::from_millis(250)).unwrap();
    assert_eq!(keep_alive[0], 4 | (1 << 4));
    assert_eq!(keep_alive[1], 2);
    let (_, payload) = client.generate_payload_packet(b"ping").unwrap();
    assert_eq!(payload[0], 5 | (1 << 4));
    assert_eq!(payload[1], 3);
}

#[test]
fn payload_overtaking_the_keep_alive_completes_the_handshake() {
    let (mut server, mut client, token) = setup_with_token();

    let mut request = client.update(Duration::ZERO).unwrap().0.to_vec();
    exchange_request(&mut server, &mut client, &mut request);
    let mut response = client.update(Duration::ZERO).unwrap().0.to_vec();
    // The server accepts the response, its keep-alive is lost
    assert!(matches!(
        server.process_packet(client_addr(), &mut response),
        ServerResult::ClientConnected { client_id: CLIENT_ID, .. }
    ));
    assert!(client.is_connecting());

    let (_, packet) = server.generate_payload_packet(CLIENT_ID, b"hello").unwrap();
    let mut packet = packet.to_vec();
    let mut replay = packet.clone();
    // Unchanged tree: None, and the client keeps sending responses
    assert_eq!(client.process_packet(&mut packet), Some(&b"hello"[..]));
    assert!(client.is_connected());
    // ... still at most once
    assert_eq!(client.process_packet(&mut replay), None);

    // The session works in both directions from here on
    let (_, packet) = client.generate_payload_packet(b"world").unwrap();
    let mut packet = packet.to_vec();
    match server.process_packet(client_addr(), &mut packet) {
        ServerResult::Payload { client_id, payload } => {
            assert_eq!(client_id, CLIENT_ID);
            assert_eq!(payload, b"world");
        }
        other => panic!("expected a payload, got {other:?}"),
    }

    // A payload does not connect a client (same token, same keys) that has not been challenged yet
    let mut fresh = NetcodeClient::new(Duration::ZERO, ClientAuthentication::Secure { connect_token: token }).unwrap();
    let (_, packet) = server.generate_payload_packet(CLIENT_ID, b"early").unwrap();
    let mut packet = packet.to_vec();
    assert_eq!(fresh.process_packet(&mut packet), None);
    assert!(fresh.is_connecting());
}
