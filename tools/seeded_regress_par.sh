#!/bin/bash
# Parallel form of seeded_regress.sh: usage tools/seeded_regress_par.sh <lanes> [name-pattern]
# Re-applies every kept seeded change in its own scratch worktree of /repo and checks that the first check listed in its
# meta.json still reports it. Output: one line per change, then a summary. /repo itself is never touched.
cd "$(dirname "$0")/.."
LANES=${1:-4}; PAT=${2:-.}
OUT=$(mktemp -d /tmp/seedreg-par.XXXX)
one() {
  name=$1
  d=seeded/$name
  id=$(python3 -c "import json,re;m=json.load(open('$d/meta.json'));print(re.match(r'C\d+',m['caught_by'][0]).group(0))")
  wt=/tmp/seedreg-$name
  git -C /repo worktree add -q --detach $wt HEAD 2>/dev/null || { echo "$name: cannot create worktree"; return; }
  if ! git -C $wt apply /verif/$d/patch.diff; then echo "$name: patch does not apply"; git -C /repo worktree remove --force $wt; return; fi
  out=$(VERIF_THREADS=4 VERIF_OUT=/tmp/seedreg-out/$name VERIF_REPO=$wt ./check $id quick 2>&1); code=$?
  if [ $code -eq 1 ]; then echo "$name: caught by $id ($(echo "$out" | grep -o 'clause=[a-z_]*' | head -1))"; else echo "$name: NOT caught by $id (exit $code)"; fi
  git -C /repo worktree remove --force $wt
  rm -rf /tmp/seedreg-out/$name $wt
}
export -f one
ls seeded | grep -E "$PAT" | xargs -P $LANES -I{} bash -c 'one {}' | tee $OUT/log
git -C /repo worktree prune
echo "SEEDED REGRESS: caught=$(grep -c ': caught by' $OUT/log) missed=$(grep -c -v ': caught by' $OUT/log)"
grep -v ": caught by" $OUT/log; [ "$(grep -c -v ": caught by" $OUT/log)" -eq 0 ]
