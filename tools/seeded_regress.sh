#!/bin/bash
# Re-checks that every seeded change under /verif/seeded is still caught by the first check listed in its meta.json.
# Each change is applied in a scratch worktree of /repo (removed afterwards); /repo itself is never touched.
# usage: tools/seeded_regress.sh [name-pattern]
cd "$(dirname "$0")/.."
PAT=${1:-.}
ok=0; bad=0
for d in seeded/*/; do
  name=$(basename $d)
  echo "$name" | grep -qE "$PAT" || continue
  id=$(python3 -c "import json,re;m=json.load(open('$d/meta.json'));print(re.match(r'C\d+',m['caught_by'][0]).group(0))")
  wt=/tmp/seedreg-$name
  git -C /repo worktree add -q --detach $wt HEAD || { echo "$name: cannot create worktree"; bad=$((bad+1)); continue; }
  if ! git -C $wt apply /verif/$d/patch.diff; then echo "$name: patch does not apply"; bad=$((bad+1)); git -C /repo worktree remove --force $wt; continue; fi
  out=$(VERIF_OUT=/tmp/seedreg-out/$name VERIF_REPO=$wt ./check $id quick 2>&1); code=$?
  if [ $code -eq 1 ]; then ok=$((ok+1)); echo "$name: caught by $id ($(echo "$out" | grep -o 'clause=[a-z_]*' | head -1))"; else bad=$((bad+1)); echo "$name: NOT caught by $id (exit $code)"; fi
  git -C /repo worktree remove --force $wt
  rm -rf /tmp/seedreg-out/$name
done
git -C /repo worktree prune
echo "SEEDED REGRESS: caught=$ok missed=$bad"
[ $bad -eq 0 ]
