#!/bin/bash
# usage: tools/fix_revert_regress.sh [lanes]
# Reverts every 'fix:' commit recorded in known_findings.json on its own in a scratch worktree of /repo (git revert --no-commit)
# and checks that the quick tier of the property named there reports a violation. /repo itself is never touched.
cd "$(dirname "$0")/.."
LANES=${1:-4}
OUT=$(mktemp -d /tmp/fixrev.XXXX)
python3 - > $OUT/list <<'P'
import json,re
for l in json.load(open('known_findings.json'))['lines']:
    m=re.match(r'fixed: property=(C\d+) ([0-9a-f]{7})', l)
    if m: print(m.group(2), m.group(1))
P
one() {
  c=$1; id=$2; wt=/tmp/fixrev-$c
  git -C /repo worktree add -q --detach $wt HEAD 2>/dev/null || { echo "$c: cannot create worktree"; return; }
  if ! git -C $wt revert --no-commit $c >/dev/null 2>&1; then echo "$c ($id): revert does not apply cleanly"; git -C /repo worktree remove --force $wt; return; fi
  out=$(VERIF_THREADS=4 VERIF_OUT=/tmp/fixrev-out/$c VERIF_REPO=$wt ./check $id quick 2>&1); code=$?
  if [ $code -eq 1 ]; then echo "$c ($id): reported ($(echo "$out" | grep -o 'clause=[a-z_]*' | head -1))"; else echo "$c ($id): NOT reported (exit $code)"; fi
  git -C /repo worktree remove --force $wt
  rm -rf /tmp/fixrev-out/$c $wt
}
export -f one
cat $OUT/list | xargs -P $LANES -L 1 bash -c 'one $0 $1' | tee $OUT/log
git -C /repo worktree prune
echo "FIX-REVERT REGRESS: reported=$(grep -c ': reported' $OUT/log) missed=$(grep -c -v ': reported' $OUT/log)"
[ "$(grep -c -v ': reported' $OUT/log)" -eq 0 ]
