#!/bin/bash
# usage: tools/seed_eval.sh <name> <worktree> <crate of demo> "<ids to run>"
# Confirms a seeded change (existing tests pass with it; demo fails with it and passes without it),
# then runs the listed checks against the worktree (VERIF_REPO) with evidence redirected.
set -u
NAME=$1; WT=$2; CRATE=$3; IDS=$4
export CARGO_NET_OFFLINE=true CARGO_TARGET_DIR=$WT/target
cd $WT || exit 2
[ -f patch.diff ] || { echo "no patch.diff"; exit 2; }
DEMO=$(git status --short -uall | grep '^??' | grep tests/ | awk '{print $2}' | head -1)
echo "demo file: $DEMO"
T=$(basename $DEMO .rs); FEAT="--features verif_hooks"; [ "$CRATE" = renet_netcode ] && FEAT=""
echo "== demo WITH change"; cargo test -p $CRATE --offline $FEAT --test $T 2>&1 | grep -E "^test result|^test .* (FAILED|ok)" | head -5
git apply -R patch.diff || { echo "cannot revert"; exit 2; }
echo "== demo WITHOUT change"; cargo test -p $CRATE --offline $FEAT --test $T 2>&1 | grep -E "^test result|^test .* (FAILED|ok)" | head -5
git apply patch.diff
mv $DEMO /tmp/$NAME-demo.rs
echo "== existing tests WITH change"; cargo test -p renet -p renetcode -p renet_netcode --offline 2>&1 | grep -E "^test result" | awk '{p+=$4; f+=$6} END {print "passed", p, "failed", f}'
mv /tmp/$NAME-demo.rs $DEMO
mkdir -p /tmp/seedout/$NAME
unset CARGO_TARGET_DIR
for id in $IDS; do
  echo "== check $id against the changed tree"
  VERIF_OUT=/tmp/seedout/$NAME VERIF_REPO=$WT /verif/check $id quick 2>&1 | grep -E "VIOLATION|clause=|quick:|INCONCLUSIVE" | head -4
done
