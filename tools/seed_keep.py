#!/usr/bin/env python3
"""usage: tools/seed_keep.py <name> <worktree> <crate> <property> "<needs>" "<caught_by ; separated>" "<author note>" [also_breaks]
Copies patch.diff and the demonstration of a confirmed seeded change into /verif/seeded/<name>/ and writes meta.json."""
import sys, os, json, shutil, subprocess
name, wt, crate, prop, needs, caught, author = sys.argv[1:8]
d = f"/verif/seeded/{name}"
os.makedirs(d, exist_ok=True)
shutil.copy(f"{wt}/patch.diff", f"{d}/patch.diff")
demo = f"{wt}/{crate}/tests/demo.rs"
shutil.copy(demo, f"{d}/demo.rs")
feat = "" if crate == "renet_netcode" else " --features verif_hooks"
ids = [c.strip() for c in caught.split(";") if c.strip()]
meta = {
    "name": name,
    "breaks_property": prop,
    "needs_to_manifest": needs,
    "demo_file_in_repo": f"{crate}/tests/demo.rs",
    "demo_command": f"cargo test -p {crate} --offline{feat} --test demo",
    "confirmed": "existing suite (renet, renetcode, renet_netcode: 41 tests incl. doctests) passes with the change; demo fails with the change and passes without it (tools/seed_eval.sh)",
    "checks_run": "VERIF_REPO=<worktree> ./check {" + " / ".join(sorted({c[:3] for c in ids})) + "} quick",
    "caught_by": ids,
    "author": author,
}
json.dump(meta, open(f"{d}/meta.json", "w"), indent=1)
print("kept", d)
