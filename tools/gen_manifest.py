#!/usr/bin/env python3
"""Regenerates /verif/MANIFEST.json from the table below (kept in one place so the manifest
stays valid while checks are added)."""
import json, subprocess, os

V = os.path.dirname(os.path.dirname(os.path.abspath(__file__)))

# id -> (level category, technique, level text, level note, design ref)
CHECKS = {}
def add(id, cat, technique, text, note, ref):
    CHECKS[id] = dict(cat=cat, technique=technique, text=text, note=note, ref=ref)

exec(open(os.path.join(V, "tools", "checks_table.py")).read())

props = [json.loads(l) for l in open(os.path.join(V, "properties.jsonl"))]
ids = [p["id"] for p in props]

def hook_commits():
    try:
        out = subprocess.check_output(["git", "-C", "/repo", "log", "--format=%h %s"], text=True)
        return [l.split()[0] for l in out.splitlines() if l.split(" ", 1)[1].startswith("verif hooks:")]
    except Exception:
        return []

manifest = {
    "version": 1,
    "setup_cmd": "./check --build",
    "hooks": {
        "guard": "cargo feature `verif_hooks` (renet and renetcode; off by default, nothing in the workspace enables it)",
        "enable": "the harness crate /verif/harness depends on /repo/renet and /repo/renetcode by path with features = [\"verif_hooks\"]; ./check rebuilds it (cargo build --offline) before every run",
        "baseline_off_cmd": "cd /repo && cargo test --workspace --no-fail-fast --offline",
        "source_commits": hook_commits(),
        "add_only": True,
    },
    "engines": [
        {
            "name": "rv",
            "path": "harness",
            "serves_properties": sorted(CHECKS.keys()),
            "kind_free_text": "Rust harness: every case is a byte choice sequence decoded into operations against the real library; drivers = committed regression corpus, deterministic small-scope enumerators, proptest (16 seeded shards, internal shrinking), libFuzzer targets on the same decoder (thorough tier)",
        }
    ],
    "checks": [],
    "not_applicable": [],
    "notes": "exit 0 = held on everything explored (KNOWN-FINDING lines possible), 1 = VIOLATION reproduced from its replay file, 2 = inconclusive (build failure, watchdog, harness bug). Known findings: /verif/known_findings.json. Design: /verif/DESIGN.md.",
}
for id in ids:
    if id in CHECKS:
        c = CHECKS[id]
        manifest["checks"].append({
            "property_id": id,
            "quick_cmd": f"./check {id} quick",
            "thorough_cmd": f"./check {id} thorough",
            "evidence_file": f"/verif/evidence/{id}.json",
            "replay_cmd_template": f"./check {id} --replay {{path}}",
            "engine": "rv",
            "level_claimed": {"category": c["cat"], "text": c["text"], "design_ref": c["ref"]},
            "level_note": c["note"],
            "technique": c["technique"],
        })
    else:
        manifest["not_applicable"].append({"property_id": id, "reason": "check under construction in this session (design in DESIGN.md section 4); not claimed until it runs clean"})
if not manifest["not_applicable"]:
    del manifest["not_applicable"]
json.dump(manifest, open(os.path.join(V, "MANIFEST.json"), "w"), indent=1)
print("claimed:", len(manifest["checks"]), "not claimed:", len(manifest.get("not_applicable", [])))
