NOTE_COMMON = "Trusted: the harness's own models/oracles, proptest, rustc; ChaCha20-Poly1305 itself. Built with overflow-checks and debug-assertions on. A pass means no counterexample among the generated cases."

add("C16", "exploration", "property-based testing (proptest round-trip + differential against a set model) and small-scope exhaustive enumeration",
    "Generated values of every packet kind of both layers and of connect tokens are round-tripped through the library's own encoders/decoders; mutated and raw byte strings are checked for decode/encode/decode stability; ack packets produced by a real endpoint are compared with a BTreeSet reference model, exhaustively for all subsets of 12-element universes in four arrival orders and by generation up to 300 sequences. Exploration is the right level: the domain is an input space with an exact executable oracle.",
    NOTE_COMMON, "DESIGN.md 4/C16")

FE = "fault_enumeration"
SIMNOTE = NOTE_COMMON + " The network is the harness: it owns every packet between get_packets_to_send and process_packet and every clock (update durations), so loss/duplication/delay/reordering and tick lengths are generated values."

add("C01", FE, "stateful property-based testing (proptest over operation+fault sequences) against a prefix model, bounded-liveness check after a fault-free heal phase",
    "Generated histories of send/receive/update/flush/deliver with a fault decision per packet in both directions are run against the real endpoints; after every receive the obtained sequence must be a byte-identical prefix of the submitted one, and after the network heals everything must arrive within a computed tick bound. Fault enumeration by generation: the quantifier is over fault sequences and schedules.",
    SIMNOTE, "DESIGN.md 4/C01")
add("C02", FE, "stateful property-based testing against a multiset model with a promptness (no head-of-line) invariant",
    "As C01 on ReliableUnordered channels with generation biased to duplicates and to receives between single-packet arrivals; oracles: sub-multiset, at-most-once, obtained only after complete handover, available right after complete handover, bounded liveness.",
    SIMNOTE, "DESIGN.md 4/C02")
add("C03", FE, "stateful property-based testing with self-describing position-dependent message contents; per-packet delivery credits for unreliable channels",
    "All channel kinds at once, boundary lengths, packing and interleaved slices, arbitrary arrival orders/losses/duplications; each obtained message must be byte-identical to one submitted on the same connection/direction/channel, unreliable messages at most as often as their least-delivered packet.",
    SIMNOTE, "DESIGN.md 4/C03")
add("C08", FE, "stateful property-based testing with a handover model (which packet was really given to the peer) + exhaustive enumeration of all arrival orders of all subsets of 6 packets",
    "Ack-path faults are generated; after every step every message that left the sender's unacknowledged set (hook, cross-checked through channel_available_memory) must have had every packet carrying it handed to the peer, and every sequence in an emitted ack packet must have been received.",
    SIMNOTE, "DESIGN.md 4/C08")
add("C09", FE, "stateful property-based testing with accounting invariants after every call, quiescence check after heal, known-finding signatures excluded by construction",
    "Small budgets, long histories, duplicate-heavy faults; invariants 0<=used<=max, exact send accounting, leak bound on receive accounting, 3 s fragment rule, full return at quiescence, no memory disconnect for a polite prompt application except the two recorded design-level findings (printed as KNOWN-FINDING while their witnesses reproduce).",
    SIMNOTE, "DESIGN.md 4/C09")
add("C14", "exploration", "property-based testing over configurations and queue contents; every flush decoded with the crate's own decoder and compared with a declarative budget/priority rule",
    "Budgets from 0 to 60000 bytes, any channel order/kinds, backlogs from faults; per flush: payload bytes <= budget, nothing eligible left unsent that would have fitted in what was left after its channel, unreliable leftovers dropped for good, reliable leftovers arrive later.",
    SIMNOTE, "DESIGN.md 4/C14")
add("C15", FE, "stateful property-based testing over tick schedules and ack faults with a transmission-log oracle",
    "Tick lengths around resend_time and the 3 s horizon, acks lost/duplicated/delayed; from the decoded packets of every flush: no unit twice within resend_time, every due unacknowledged unit present (unbounded budget), no unit after its acknowledgement was processed.",
    SIMNOTE, "DESIGN.md 4/C15")

add("C06", "exploration", "stateful property-based testing/fuzzing: field-targeted hostile packets (own raw writer), mutations of captured genuine packets and raw bytes injected into a live multi-connection session; no-unwind, memory-bound and bystander oracles",
    "Injections are aimed with knowledge of the live state (messages in reassembly, cursors, sent sequences) at either endpoint of a victim connection while a bystander connection carries checked traffic; any unwind (overflow checks on), any accounted memory outside [0,max], any disturbance of the bystander is a violation. Exploration: the domain is byte strings x session states.",
    SIMNOTE, "DESIGN.md 4/C06")

add("C11", FE, "stateful property-based testing with per-(client, direction, channel) models, recipient sets in message headers, per-client fault schedules, a targeted stall fault and hostile injection",
    "2-5 clients joining late and disconnecting at any time, send/broadcast/broadcast_except, one optional hostile client and one optional stalled stream; every obtained message must be registered for that client and channel; bounded liveness is demanded for every client and channel other than the misbehaving/stalled one.",
    SIMNOTE, "DESIGN.md 4/C11")
add("C12", "exploration", "model-based property-based testing over public-API call histories (reference model of connection status, first disconnect reason and the server event stream)",
    "Histories of up to 400 API calls on a server and four client objects (remote-style and local) are compared call by call with a model that knows which operation may disconnect which object and predicts the exact server event sequence.",
    NOTE_COMMON, "DESIGN.md 4/C12")
add("C13", "exploration", "property-based testing with counter presets (hooks) at varint width boundaries and ack-list maximising receive patterns; composition with the netcode layer",
    "Every packet the message layer emits under generated workloads (bursts of tiny messages, threshold-sized messages, slices, up to 64 widely spaced ack ranges, 8-byte ids/sequences) must be <= 1300 bytes and serialise; each one is carried through generate_payload_packet of a live netcode pair with sequences of every width and must yield a datagram <= 1400 bytes.",
    SIMNOTE, "DESIGN.md 4/C13")

NETNOTE = NOTE_COMMON + " Authenticity of a datagram is decided by provenance (the harness watched every genuine datagram being produced and knows every key), never by asking the code under test. renetcode's random source is seeded through the verif_hooks RNG hook so cases replay bit-identically."

add("C07", "exploration", "property-based testing/fuzzing of the datagram and token parsers inside a staged live server (all protocol states at once) with a before/after state-snapshot oracle; exhaustive prefix x length grid",
    "Mutated, replayed, misplaced, boundary-shaped and random datagrams are presented from every address class and to clients in every state; no call may unwind and a non-authentic datagram must leave every observable of server and clients unchanged; genuine traffic must still work afterwards. Token bytes are fuzzed through read -> client construction -> update.",
    NETNOTE, "DESIGN.md 4/C07")

add("C04", "exploration", "model-based property-based testing: pools of genuine payload datagrams presented in generated orders/forms (payloads and the endpoints' own keep-alives) against a set-of-accepted-sequences reference model of the replay window",
    "Genuine, replayed, mutated, re-addressed, cross-session, cross-direction and other-protocol / other-key re-sealed payload datagrams are presented to live sessions with sequence choices aimed at the window boundaries (s, s+-1, s-255, s-256, s-257, multiples of 256) at counter magnitudes up to 2^64-5001; both directions of the property are checked (only authentic ones surface, at most once; a fresh in-window genuine one must surface, also after forgeries with the same sequence).",
    NETNOTE, "DESIGN.md 4/C04")
add("C19", "exploration", "property-based testing of reply size/address against provenance-labelled inputs in generated server states",
    "Requests and responses of not-yet-connected clients are presented exactly, padded, truncated, corrupted, expired, from other addresses and repeatedly, plus random bytes, in server states empty / pending / full; every reply must go to the source address and be strictly shorter than the input, and inputs without a valid token or response must get none.",
    NETNOTE, "DESIGN.md 4/C19")

add("C05", "exploration", "model-based property-based testing of handshake histories: every ClientConnected must be explained by the recorded history (provenance model of tokens, addresses, challenges)",
    "Several identities, addresses and tokens (good / foreign key / foreign protocol / wrong host / short-lived), lossy honest handshakes, the clock stepped around every expiry second, stolen and corrupted requests, cross-echoed challenges (other id, same id with other user data, other server), replayed and mutated responses; the oracle rejects any reported connection the history does not explain.",
    NETNOTE, "DESIGN.md 4/C05")

add("C10", "exploration", "model-based property-based testing of multi-session handshake/disconnect/timeout/replay histories against a session-table model and the event stream",
    "Up to 8 client objects over 4 identities and 5 addresses (several tokens per identity, several clients per address) race for 1-4 slots with lossy handshakes, disconnects from both sides, timeouts, genuine payloads and replays of any earlier datagram from any address; table invariants (unique ids, unique addresses, capacity), event alternation, identity of every connect, origin of every datagram-caused disconnect and routing of payloads are checked after every step.",
    NETNOTE, "DESIGN.md 4/C10")

add("C17", "exploration", "exhaustive single-bit / truncation tampering of sample datagrams and tokens; property-based handshake/session histories with nonce-uniqueness oracle by trial decryption",
    "Every bit and every truncation length of a sample of every sealed packet kind and direction, every bit of a token's sealed part, nonce, protocol id and expiry, and every cross-key / cross-protocol opening must fail; in generated histories every emitted datagram is attributed to a key by trial decryption and no (endpoint, key) pair may seal two different datagrams with one sequence number.",
    NETNOTE, "DESIGN.md 4/C17")

add("C18", FE, "stateful property-based testing over loss/delay/duplication schedules, tick lengths, timeouts, address lists and limit changes, with a reference model of the last authentic fresh packet per side and a bounded-liveness check after faults stop; plus small-scope enumeration of every address-list length 1-32 x position of the answering address",
    "The harness owns every datagram and both clocks; timeouts are compared with the model at every update (must fire / must not fire, on both sides, regardless of forged or replayed traffic), half-open sessions must vanish at token expiry, denials must be explained by a full server, and after the network heals every client still connecting under the stated preconditions must be connected on both sides within a computed bound.",
    NETNOTE, "DESIGN.md 4/C18")

add("C20", FE, "stateful property-based testing of the real UDP transports on loopback sockets through a harness-owned in-path relay (generated per-datagram faults), lock-step and propagation oracles, end-to-end message oracles",
    "NetcodeServerTransport and up to six NetcodeClientTransports run over real sockets; the relay drops, duplicates, delays, corrupts and replays datagrams per (client, direction, index); after every server-transport update the message-layer table, the netcode table and the event stream must name the same ids; disconnects decided anywhere must appear as a netcode disconnect datagram within two ticks, end the other side shortly after it is forwarded, and end every such session on both sides after timeout + 3 s of fault-free ticks; gentle cases must never disconnect anybody.",
    NETNOTE + " Sockets are real (127.0.0.1, ephemeral ports); no threads and no sleeps: the harness thread pumps the relay after every transport call and time is the duration argument.", "DESIGN.md 4/C20")
