NOTE_COMMON = "Trusted: the harness's own models/oracles, proptest, rustc; ChaCha20-Poly1305 itself. Built with overflow-checks and debug-assertions on. A pass means no counterexample among the generated cases."

add("C16", "exploration", "property-based testing (proptest round-trip + differential against a set model) and small-scope exhaustive enumeration",
    "Generated values of every packet kind of both layers and of connect tokens are round-tripped through the library's own encoders/decoders; mutated and raw byte strings are checked for decode/encode/decode stability; ack packets produced by a real endpoint are compared with a BTreeSet reference model, exhaustively for all subsets of 12-element universes in four arrival orders and by generation up to 300 sequences. Exploration is the right level: the domain is an input space with an exact executable oracle.",
    NOTE_COMMON, "DESIGN.md 4/C16")
