#!/bin/bash
# usage: tools/legal_eval.sh <name> <worktree>
# For a property-PRESERVING variant of the library (patch.diff applied in a scratch worktree): the existing suite must pass
# and every check must stay silent. Prints one line per check; any VIOLATION is a candidate false alarm to analyse.
set -u
NAME=$1; WT=$2; IDS=${3:-"C01 C02 C03 C04 C05 C06 C07 C08 C09 C10 C11 C12 C13 C14 C15 C16 C17 C18 C19 C20"}
export CARGO_NET_OFFLINE=true
cd $WT || exit 2
DEMOS=$(git status --short -uall | grep '^??' | grep tests/ | awk '{print $2}')
mkdir -p /tmp/legal-demos/$NAME; for d in $DEMOS; do mv $d /tmp/legal-demos/$NAME/; done
echo "== existing tests WITH change"; CARGO_TARGET_DIR=$WT/target cargo test -p renet -p renetcode -p renet_netcode --offline 2>&1 | grep -E "^test result" | awk '{p+=$4; f+=$6} END {print "passed", p, "failed", f}'
i=0; for d in $DEMOS; do cp /tmp/legal-demos/$NAME/$(basename $d) $d; done
mkdir -p /tmp/seedout/$NAME
for id in $IDS; do
  out=$(VERIF_OUT=/tmp/seedout/$NAME VERIF_REPO=$WT /verif/check $id quick 2>&1); code=$?
  echo "$NAME $id exit=$code $(echo "$out" | grep -E "quick:" | head -1 | cut -c1-90)"
  [ $code -ne 0 ] && echo "$out" | grep -E "VIOLATION|clause=|INCONCLUSIVE|^error" | head -4 | cut -c1-400
done
