#!/bin/bash
# Parallel form of legal_regress.sh: usage tools/legal_regress_par.sh <lanes> [name-pattern]
# Every property-preserving variant under /verif/legal is applied in its own scratch worktree of /repo and every check of the
# changed layer (plus C20) must stay silent. /repo itself is never touched. LEGAL_IDS_RENET / LEGAL_IDS_NETC restrict the checks
# (e.g. to those whose generators were just changed).
cd "$(dirname "$0")/.."
LANES=${1:-3}; PAT=${2:-.}
OUT=$(mktemp -d /tmp/legalreg-par.XXXX)
one() {
  name=$1; d=legal/$name
  RENET="${LEGAL_IDS_RENET:-C01 C02 C03 C06 C08 C09 C11 C12 C13 C14 C15 C16 C20}"; NETC="${LEGAL_IDS_NETC:-C04 C05 C07 C10 C13 C16 C17 C18 C19 C20}"
  EXTRA="C11 C12"; [ -n "${LEGAL_IDS_NETC:-}" ] && EXTRA=""
  file=$(python3 -c "import json;print(json.load(open('$d/meta.json'))['file'])")
  case "$file" in renet/*) ids="$RENET";; renet_netcode/*) ids="$NETC $EXTRA";; *) ids="$NETC";; esac
  wt=/tmp/legalreg-$name
  git -C /repo worktree add -q --detach $wt HEAD 2>/dev/null || { echo "$name: cannot create worktree"; return; }
  if ! git -C $wt apply /verif/$d/patch.diff; then echo "$name: patch does not apply"; git -C /repo worktree remove --force $wt; return; fi
  alarms=""
  for id in $ids; do
    VERIF_THREADS=5 VERIF_OUT=/tmp/legalreg-out/$name VERIF_REPO=$wt ./check $id quick >/tmp/legalreg-$name.log 2>&1; code=$?
    [ $code -ne 0 ] && alarms="$alarms $id(exit $code: $(grep -o 'clause=[a-z_]*' /tmp/legalreg-$name.log | head -1))"
  done
  if [ -z "$alarms" ]; then echo "$name: all checks silent"; else echo "$name: ALARM$alarms"; fi
  git -C /repo worktree remove --force $wt
  rm -rf /tmp/legalreg-out/$name /tmp/legalreg-$name.log $wt
}
export -f one
ls legal | grep -E "$PAT" | xargs -P $LANES -I{} bash -c 'one {}' | tee $OUT/log
git -C /repo worktree prune
echo "LEGAL REGRESS: silent=$(grep -c ': all checks silent' $OUT/log) alarmed=$(grep -c -v ': all checks silent' $OUT/log)"
[ "$(grep -c -v ': all checks silent' $OUT/log)" -eq 0 ]
