#!/usr/bin/env python3-vt
import json, jsonschema, glob, sys
ok = True
m = json.load(open('/verif/MANIFEST.json'))
jsonschema.validate(m, json.load(open('/root/.vp/MANIFEST.schema.json')))
es = json.load(open('/root/.vp/EVIDENCE.schema.json'))
for c in m['checks']:
    try:
        jsonschema.validate(json.load(open(c['evidence_file'])), es)
    except Exception as e:
        ok = False
        print("EVIDENCE INVALID", c['property_id'], str(e)[:300])
print("manifest valid; evidence", "valid" if ok else "INVALID")
sys.exit(0 if ok else 1)
