#!/bin/bash
# usage: tools/soak.sh "<seeds>" [tier]   runs every check under every seed; prints one line per run and a summary
cd "$(dirname "$0")/.."
SEEDS=${1:-"1 2 3"}; TIER=${2:-quick}
fail=0
for s in $SEEDS; do
  for id in C01 C02 C03 C04 C05 C06 C07 C08 C09 C10 C11 C12 C13 C14 C15 C16 C17 C18 C19 C20; do
    out=$(VERIF_SEED=$s ./check $id $TIER 2>&1); code=$?
    line=$(echo "$out" | grep -E "^$id $TIER:" | head -1)
    echo "seed=$s exit=$code $line"
    if [ $code -ne 0 ]; then fail=1; echo "$out" | grep -E "VIOLATION|clause=|INCONCLUSIVE" | head -5; fi
  done
done
echo "SOAK DONE fail=$fail"
