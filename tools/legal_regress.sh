#!/bin/bash
# Re-checks that every property-preserving variant under /verif/legal leaves the checks silent (false-alarm regression).
# Each variant is applied in a scratch worktree of /repo (removed afterwards); /repo itself is never touched.
# usage: tools/legal_regress.sh [name-pattern]
cd "$(dirname "$0")/.."
PAT=${1:-.}
RENET="C01 C02 C03 C06 C08 C09 C11 C12 C13 C14 C15 C16 C20"; NETC="C04 C05 C07 C10 C13 C16 C17 C18 C19 C20"
ok=0; bad=0
for d in legal/*/; do
  name=$(basename $d)
  echo "$name" | grep -qE "$PAT" || continue
  file=$(python3 -c "import json;print(json.load(open('$d/meta.json'))['file'])")
  case "$file" in renet/*) ids="$RENET";; renet_netcode/*) ids="$NETC C11 C12";; *) ids="$NETC";; esac
  wt=/tmp/legalreg-$name
  git -C /repo worktree add -q --detach $wt HEAD || { echo "$name: cannot create worktree"; bad=$((bad+1)); continue; }
  if ! git -C $wt apply /verif/$d/patch.diff; then echo "$name: patch does not apply"; bad=$((bad+1)); git -C /repo worktree remove --force $wt; continue; fi
  alarms=""
  for id in $ids; do
    VERIF_OUT=/tmp/legalreg-out/$name VERIF_REPO=$wt ./check $id quick >/tmp/legalreg-$name.log 2>&1; code=$?
    [ $code -ne 0 ] && alarms="$alarms $id(exit $code: $(grep -o 'clause=[a-z_]*' /tmp/legalreg-$name.log | head -1))"
  done
  if [ -z "$alarms" ]; then ok=$((ok+1)); echo "$name: all checks silent"; else bad=$((bad+1)); echo "$name: ALARM$alarms"; fi
  git -C /repo worktree remove --force $wt
  rm -rf /tmp/legalreg-out/$name /tmp/legalreg-$name.log
done
git -C /repo worktree prune
echo "LEGAL REGRESS: silent=$ok alarmed=$bad"
[ $bad -eq 0 ]
