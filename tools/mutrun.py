#!/usr/bin/env python3
"""Run the quick checks against single-line mutants of the library (sensitivity study, DESIGN.md section 8.1).

usage: tools/mutrun.py <mutants.jsonl> <results.jsonl> [workers]

Every worker owns one scratch worktree of /repo under /tmp (removed at the end). Per mutant: apply the line, rebuild the
harness against the worktree, run the checks relevant to the mutated file until one reports a violation; if none does, run
the crate's own test suite. Result classes: nocompile, killed (by which check and clause), inconclusive, killed_by_tests,
survivor. /repo itself is never touched; nothing is written under /verif.
"""
import json, os, subprocess, sys, multiprocessing, time

VERIF = os.path.dirname(os.path.dirname(os.path.abspath(__file__)))
RELEVANT = {
    "renet/src/channel/reliable.rs": "C01 C02 C08 C09 C15 C14 C03 C13 C11 C06 C16 C12",
    "renet/src/channel/unreliable.rs": "C03 C09 C14 C13 C06 C11 C16",
    "renet/src/channel/slice_constructor.rs": "C03 C06 C01 C02 C09",
    "renet/src/channel/mod.rs": "C01 C03 C09 C14 C15",
    "renet/src/remote_connection.rs": "C08 C16 C13 C06 C12 C01 C15 C14 C09 C11 C03 C02",
    "renet/src/packet.rs": "C16 C06 C13 C01 C03 C08",
    "renet/src/server.rs": "C12 C11 C06 C20",
    "renetcode/src/server.rs": "C05 C10 C07 C18 C19 C17 C04 C13 C16 C20",
    "renetcode/src/client.rs": "C18 C07 C04 C17 C13 C05 C20",
    "renetcode/src/packet.rs": "C16 C07 C17 C04 C13 C19 C05",
    "renetcode/src/replay_protection.rs": "C04 C07",
    "renetcode/src/token.rs": "C16 C05 C17 C07 C18",
    "renetcode/src/crypto.rs": "C17 C16 C04",
    "renetcode/src/serialize.rs": "C16 C07 C05",
    "renet_netcode/src/server.rs": "C20",
    "renet_netcode/src/client.rs": "C20",
}
ENV = dict(os.environ, CARGO_NET_OFFLINE="true")


def sh(cmd, env=None, timeout=None, cwd=None):
    try:
        p = subprocess.run(cmd, shell=True, env=env or ENV, cwd=cwd, capture_output=True, text=True, timeout=timeout)
        return p.returncode, p.stdout + p.stderr
    except subprocess.TimeoutExpired as e:
        return 124, (e.stdout or b"").decode(errors="replace") if isinstance(e.stdout, bytes) else (e.stdout or "")


def worker(k, queue, results_path, lock, threads):
    wt = f"/tmp/mutw-{k}"
    out = f"/tmp/mutw-{k}-out"
    sh(f"git -C /repo worktree remove --force {wt}; rm -rf {wt}; git -C /repo worktree add -q --detach {wt} HEAD")
    env = dict(ENV, VERIF_REPO=wt, VERIF_OUT=out, VERIF_THREADS=str(threads), VERIF_DIR=VERIF)
    sh(f"{VERIF}/check --build", env=env, timeout=1800)
    binp = f"{wt}/.rv-harness/target/debug/rv-check"
    while True:
        m = queue.get()
        if m is None:
            break
        t0 = time.time()
        path = os.path.join(wt, m["file"])
        src = open(path).read().split("\n")
        res = {"id": m["id"], "file": m["file"], "line": m["line"], "op": m["op"], "before": m["before"], "after": m["after"]}
        if src[m["line"] - 1].strip() != m["before"]:
            res["result"] = "stale"
        else:
            src[m["line"] - 1] = m["new_line"]
            open(path, "w").write("\n".join(src))
            code, o = sh(f"{VERIF}/check --build", env=env, timeout=1800)
            if code != 0:
                res["result"] = "nocompile"
            else:
                res["result"] = None
                res["inconclusive"] = []
                for cid in RELEVANT[m["file"]].split():
                    code, o = sh(f"ulimit -v 16000000; cd {VERIF} && {binp} {cid} quick", env=env, timeout=900)
                    if code == 1 and "VIOLATION" in o:
                        cl = [l for l in o.split("\n") if l.startswith("clause=")]
                        res["result"] = "killed"
                        res["by"] = cid
                        res["clause"] = cl[0][:300] if cl else ""
                        break
                    if code != 0:
                        res["inconclusive"].append((cid, code, o[-300:]))
                if res["result"] is None:
                    crate = m["file"].split("/")[0]
                    code, o = sh(f"ulimit -v 16000000; cargo test -p {crate} --offline 2>&1 | tail -30", env=dict(ENV, CARGO_TARGET_DIR=f"{wt}/target"), cwd=wt, timeout=1200)
                    failed = "test result: FAILED" in o or "error: test failed" in o or "error[" in o or code == 124
                    res["result"] = "killed_by_tests" if failed else ("inconclusive" if res["inconclusive"] else "survivor")
            sh(f"git -C {wt} checkout -- {m['file']}")
        res["secs"] = round(time.time() - t0, 1)
        with lock:
            with open(results_path, "a") as f:
                f.write(json.dumps(res) + "\n")
    sh(f"git -C /repo worktree remove --force {wt}; rm -rf {wt} {out}; git -C /repo worktree prune")


def main():
    mpath, rpath = sys.argv[1], sys.argv[2]
    workers = int(sys.argv[3]) if len(sys.argv) > 3 else 4
    done = set()
    if os.path.exists(rpath):
        done = {json.loads(l)["id"] for l in open(rpath)}
    ms = [json.loads(l) for l in open(mpath)]
    ms = [m for m in ms if m["id"] not in done]
    q = multiprocessing.Queue()
    for m in ms:
        q.put(m)
    for _ in range(workers):
        q.put(None)
    lock = multiprocessing.Lock()
    threads = max(2, 16 // workers)
    ps = [multiprocessing.Process(target=worker, args=(k, q, rpath, lock, threads)) for k in range(workers)]
    for p in ps:
        p.start()
    for p in ps:
        p.join()
    print("done")


if __name__ == "__main__":
    main()
