#!/usr/bin/env python3
"""Generate single-line source mutants of the library (sensitivity study, see DESIGN.md section 8.1).

usage: tools/mutgen.py <repo> <out.jsonl> [sample-size] [seed]

Mutation operators (one change per mutant, one line): relational operator swaps, boolean connective swaps,
off-by-one on `+ 1` / `- 1` / numeric literals, negated `if` condition, deleted simple statement, min/max and
saturating/wrapping swaps. Test modules, verification hooks (cfg(feature = "verif_hooks")), comments, logging and
Display/Debug implementations are not mutated.
"""
import json, random, re, sys, os

FILES = [
    "renet/src/channel/reliable.rs",
    "renet/src/channel/unreliable.rs",
    "renet/src/channel/slice_constructor.rs",
    "renet/src/channel/mod.rs",
    "renet/src/remote_connection.rs",
    "renet/src/packet.rs",
    "renet/src/server.rs",
    "renetcode/src/server.rs",
    "renetcode/src/client.rs",
    "renetcode/src/packet.rs",
    "renetcode/src/replay_protection.rs",
    "renetcode/src/token.rs",
    "renetcode/src/crypto.rs",
    "renetcode/src/serialize.rs",
    "renet_netcode/src/server.rs",
    "renet_netcode/src/client.rs",
]

REL = [(" <= ", " < "), (" < ", " <= "), (" >= ", " > "), (" > ", " >= "), (" == ", " != "), (" != ", " == ")]
BOOL = [(" && ", " || "), (" || ", " && ")]
ARITH = [(" + 1", ""), (" - 1", ""), (" + 1", " + 2"), (" - 1", " + 1"), (" += 1", " += 2"), (" + ", " - "), (" - ", " + ")]
CALLS = [(".min(", ".max("), (".max(", ".min("), ("saturating_sub", "wrapping_sub"), ("saturating_add", "wrapping_add"), ("wrapping_add", "saturating_add"), ("wrapping_sub", "saturating_sub"), (".is_some()", ".is_none()"), (".is_none()", ".is_some()"), (".is_empty()", ".is_empty() == false"), ("checked_sub", "checked_add")]


def skip_ranges(lines):
    """Line indexes not to mutate: test modules, hook items, Display/Debug/Error impls."""
    skip = set()
    i = 0
    n = len(lines)

    def block_end(start):
        depth = 0
        seen = False
        j = start
        while j < n:
            depth += lines[j].count("{") - lines[j].count("}")
            if "{" in lines[j]:
                seen = True
            if seen and depth <= 0:
                return j
            if not seen and lines[j].rstrip().endswith(";"):
                return j
            j += 1
        return n - 1

    while i < n:
        s = lines[i].strip()
        if s.startswith("#[cfg(test)]"):
            for k in range(i, n):
                skip.add(k)
            break
        if "verif_hooks" in s and s.startswith("#["):
            e = block_end(i + 1)
            for k in range(i, e + 1):
                skip.add(k)
            i = e + 1
            continue
        if re.match(r"impl(<[^>]*>)?\s+(fmt::|std::fmt::)?(Display|Debug)\b", s) or re.match(r"impl(<[^>]*>)?\s+(std::error::|error::)?Error\b", s):
            e = block_end(i)
            for k in range(i, e + 1):
                skip.add(k)
            i = e + 1
            continue
        i += 1
    return skip


def candidates(path, text):
    lines = text.split("\n")
    skip = skip_ranges(lines)
    out = []
    for i, line in enumerate(lines):
        if i in skip:
            continue
        s = line.strip()
        if not s or s.startswith("//") or s.startswith("#[") or s.startswith("use ") or "log::" in s or s.startswith("///"):
            continue
        code = line.split("//")[0]
        if "assert" in code or "panic!" in code or "unreachable!" in code:
            continue

        def emit(op, new):
            if new != line:
                out.append({"file": path, "line": i + 1, "op": op, "before": line.strip(), "after": new.strip(), "new_line": new})

        is_sig = re.match(r"\s*(pub(\([a-z]+\))?\s+)?(fn|struct|enum|impl|type|const|static|trait|mod)\b", code) is not None
        if not is_sig and "->" not in code and "=>" not in code.replace(">=", "").replace("<=", "") or (not is_sig and "=>" in code and (" if " in code)):
            for a, b in REL:
                for m in re.finditer(re.escape(a), code):
                    # generics / turbofish contain no spaces around < >
                    emit("rel:%s->%s" % (a.strip(), b.strip()), code[: m.start()] + b + code[m.end():] + line[len(code):])
        if not is_sig:
            for a, b in BOOL:
                for m in re.finditer(re.escape(a), code):
                    emit("bool:%s->%s" % (a.strip(), b.strip()), code[: m.start()] + b + code[m.end():] + line[len(code):])
            for a, b in ARITH:
                for m in re.finditer(re.escape(a) + (r"\b" if a[-1].isdigit() else ""), code):
                    if a in (" + ", " - ") and ('"' in code or "'" in code):
                        continue
                    emit("arith:%s->%s" % (a.strip(), b.strip() or "(removed)"), code[: m.start()] + b + code[m.end():] + line[len(code):])
            for a, b in CALLS:
                for m in re.finditer(re.escape(a), code):
                    emit("call:%s->%s" % (a, b), code[: m.start()] + b + code[m.end():] + line[len(code):])
            # numeric literals (not in array types / indexes of fixed layouts are fine too)
            for m in re.finditer(r"(?<![\w.])(\d+)(?![\w.]*\])(?![\w.])", code):
                v = int(m.group(1))
                if v > 1 and "const" not in code.split("=")[0]:
                    emit("lit:%d->%d" % (v, v + 1), code[: m.start()] + str(v + 1) + code[m.end():] + line[len(code):])
                    emit("lit:%d->%d" % (v, v - 1), code[: m.start()] + str(v - 1) + code[m.end():] + line[len(code):])
            for m in re.finditer(r"(?<![\w.])(\d+)(?![\w.])", code):
                if "const " in code and "=" in code and m.start() > code.index("="):
                    v = int(m.group(1))
                    if v > 1:
                        emit("const:%d->%d" % (v, v + 1), code[: m.start()] + str(v + 1) + code[m.end():] + line[len(code):])
                        emit("const:%d->%d" % (v, v - 1), code[: m.start()] + str(v - 1) + code[m.end():] + line[len(code):])
            # negated single-line if condition
            m = re.match(r"^(\s*)(\} else )?if (?!let )(.+) \{\s*$", code)
            if m:
                emit("negate-if", "%s%sif !(%s) {" % (m.group(1), m.group(2) or "", m.group(3)))
            # deleted simple statement
            if re.match(r"^\s*(self\.|[a-z_]+\.|[a-z_]+\[|\*?[a-z_]+ (\+|-|\|)?= )[^{}]*;\s*$", code) and code.count("(") == code.count(")"):
                emit("delete-stmt", re.match(r"^\s*", code).group(0) + "// mutant: statement removed")
            if re.match(r"^\s*(continue|break);\s*$", code):
                emit("delete-stmt", re.match(r"^\s*", code).group(0) + "// mutant: statement removed")
    return out


def main():
    repo, outp = sys.argv[1], sys.argv[2]
    k = int(sys.argv[3]) if len(sys.argv) > 3 else 0
    seed = int(sys.argv[4]) if len(sys.argv) > 4 else 1
    allm = []
    for f in FILES:
        p = os.path.join(repo, f)
        if not os.path.exists(p):
            continue
        allm += candidates(f, open(p).read())
    # de-duplicate identical resulting lines
    seen = set()
    uniq = []
    for m in allm:
        key = (m["file"], m["line"], m["new_line"])
        if key not in seen:
            seen.add(key)
            uniq.append(m)
    rnd = random.Random(seed)
    if k and k < len(uniq):
        # stratified by file: proportional, at least 3 per file
        byf = {}
        for m in uniq:
            byf.setdefault(m["file"], []).append(m)
        pick = []
        for f, ms in byf.items():
            q = max(3, round(k * len(ms) / len(uniq)))
            pick += rnd.sample(ms, min(q, len(ms)))
        uniq = pick
    rnd.shuffle(uniq)
    with open(outp, "w") as o:
        for n, m in enumerate(uniq):
            m["id"] = n
            o.write(json.dumps(m) + "\n")
    print("candidates", len(allm), "written", len(uniq))


if __name__ == "__main__":
    main()
