#!/bin/bash
# usage: tools/soak_ids.sh "<ids>" "<seeds>" [tier]   runs the listed checks under every seed; one line per run and a summary
cd "$(dirname "$0")/.."
IDS=$1; SEEDS=${2:-"20260924"}; TIER=${3:-quick}
fail=0
for s in $SEEDS; do
  for id in $IDS; do
    out=$(VERIF_SEED=$s ./check $id $TIER 2>&1); code=$?
    line=$(echo "$out" | grep -E "^$id $TIER:" | head -1)
    echo "seed=$s exit=$code $line"
    if [ $code -ne 0 ]; then fail=1; echo "$out" | grep -E "VIOLATION|clause=|INCONCLUSIVE" | head -5; fi
  done
done
echo "SOAK DONE fail=$fail"
