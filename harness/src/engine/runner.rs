//! Drivers: regression corpus, known-finding witnesses, enumerators, proptest shards.
//! Writes evidence and replay files and maps outcomes to exit codes.

use super::*;
use proptest::collection::vec as pvec;
use proptest::prelude::*;
use proptest::test_runner::{Config, RngAlgorithm, RngSeed, TestCaseError, TestError, TestRunner};
use std::collections::{BTreeMap, HashSet};
use std::path::{Path, PathBuf};
use std::sync::atomic::{AtomicBool, AtomicU64, Ordering};
use std::sync::Mutex;
use std::time::Instant;

pub const DEFAULT_SEED: u64 = 20260924;

#[derive(Clone, Debug, serde::Deserialize)]
pub struct KnownEntry {
    pub property: String,
    /// "open" or "fixed"
    pub status: String,
    pub signature: String,
    pub what: String,
    #[serde(default)]
    pub witness: Option<String>,
    #[serde(default)]
    pub commit: Option<String>,
}

#[derive(Clone, Debug, serde::Deserialize, Default)]
pub struct KnownFile {
    #[serde(default)]
    pub findings: Vec<KnownEntry>,
}

#[derive(serde::Serialize, serde::Deserialize, Debug, Clone)]
pub struct ReplayFile {
    pub property: String,
    pub case: CaseId,
    #[serde(default)]
    pub clause: String,
    #[serde(default)]
    pub detail: String,
    #[serde(default)]
    pub signature: String,
    #[serde(default)]
    pub trace: Vec<String>,
    #[serde(default)]
    pub note: String,
    /// tier whose bounds decoded the case ("quick" / "thorough"); generators take some bounds from the tier, so a case must be
    /// replayed under the tier that found it (files without the field: the tier of the replaying run)
    #[serde(default)]
    pub tier: String,
}

impl ReplayFile {
    pub fn tier_or(&self, default: Tier) -> Tier {
        match self.tier.as_str() {
            "quick" => Tier::Quick,
            "thorough" => Tier::Thorough,
            _ => default,
        }
    }
}

/// Where evidence and replay files go (default: the verif directory; VERIF_OUT redirects them, used when
/// a scratch copy of the repository is checked so the real tree's evidence is not overwritten).
pub fn out_dir() -> PathBuf {
    std::env::var("VERIF_OUT").map(PathBuf::from).unwrap_or_else(|_| verif_dir())
}

pub fn verif_dir() -> PathBuf {
    std::env::var("VERIF_DIR").map(PathBuf::from).unwrap_or_else(|_| PathBuf::from("/verif"))
}

fn load_known(id: &str) -> Vec<KnownEntry> {
    let p = verif_dir().join("known_findings.json");
    let Ok(s) = std::fs::read_to_string(&p) else { return vec![] };
    let f: KnownFile = serde_json::from_str(&s).unwrap_or_default();
    f.findings.into_iter().filter(|e| e.property == id).collect()
}

pub struct FuzzReport {
    pub execs: u64,
    pub requested: u64,
    pub corpus_seed_files: usize,
    pub corpus_final_files: usize,
    pub crash_artifacts: Vec<PathBuf>,
    pub other_artifacts: usize,
    pub note: String,
}

/// Coverage-guided driver: runs the pre-built libFuzzer target of the property (path in RV_FUZZ_BIN)
/// with a fixed number of runs per worker, a fresh corpus seeded from the regression corpus and a few
/// random choice sequences. A wall-clock cap only means 'explored less'.
pub fn run_fuzz(prop: &dyn Property, seed: u64, threads: usize, scale: f64) -> Option<FuzzReport> {
    let bin = std::env::var("RV_FUZZ_BIN").ok()?;
    if !Path::new(&bin).exists() {
        return None;
    }
    let id = prop.id();
    let cfg = prop.pbt(Tier::Thorough);
    let work = out_dir().join("fuzz-run").join(format!("{}-{}", id, seed));
    let _ = std::fs::remove_dir_all(&work);
    let corpus = work.join("corpus");
    let artifacts = work.join("artifacts");
    let _ = std::fs::create_dir_all(&corpus);
    let _ = std::fs::create_dir_all(&artifacts);
    let mut seeds = 0usize;
    // regression cases and witnesses
    for sub in ["regress", ""] {
        let dir = verif_dir().join("corpus").join(id).join(sub);
        if let Ok(rd) = std::fs::read_dir(&dir) {
            for e in rd.filter_map(|e| e.ok()) {
                if let Ok(s) = std::fs::read_to_string(e.path()) {
                    if let Ok(rf) = serde_json::from_str::<ReplayFile>(&s) {
                        if let CaseId::Choices { hex } = rf.case {
                            let _ = std::fs::write(corpus.join(format!("seed-{seeds:04}")), from_hex(&hex));
                            seeds += 1;
                        }
                    }
                }
            }
        }
    }
    // random choice sequences of several lengths (libFuzzer ramps length slowly from an empty corpus)
    for k in 0..48u64 {
        let len = match k % 4 {
            0 => cfg.max_len / 16,
            1 => cfg.max_len / 4,
            2 => cfg.max_len / 2,
            _ => cfg.max_len,
        }
        .max(8);
        let mut b = vec![0u8; len];
        fill_stream(splitmix(seed ^ (k << 32) ^ fnv(id.as_bytes())), &mut b);
        let _ = std::fs::write(corpus.join(format!("rand-{k:04}")), b);
        seeds += 1;
    }
    let workers = threads.max(1);
    let total: u64 = ((cfg.cases as f64) * scale * 2.0) as u64;
    let per = (total / workers as u64).max(1000);
    let cap_s: u64 = std::env::var("VERIF_FUZZ_MAX_S").ok().and_then(|v| v.parse().ok()).unwrap_or(300);
    let status = std::process::Command::new(&bin)
        .current_dir(&work)
        .env("VERIF_OUT", out_dir())
        .arg(&corpus)
        .arg(format!("-runs={per}"))
        .arg(format!("-seed={}", (seed % 4_000_000_000).max(1)))
        .arg(format!("-max_len={}", cfg.max_len))
        .arg("-len_control=0")
        .arg("-print_final_stats=1")
        .arg(format!("-max_total_time={cap_s}"))
        .arg("-rss_limit_mb=4096")
        .arg("-timeout=60")
        .arg(format!("-artifact_prefix={}/", artifacts.display()))
        .arg(format!("-jobs={workers}"))
        .arg(format!("-workers={workers}"))
        .stdout(std::process::Stdio::null())
        .stderr(std::process::Stdio::null())
        .status();
    let mut execs = 0u64;
    if let Ok(rd) = std::fs::read_dir(&work) {
        for e in rd.filter_map(|e| e.ok()) {
            let name = e.file_name().to_string_lossy().to_string();
            if name.starts_with("fuzz-") && name.ends_with(".log") {
                if let Ok(s) = std::fs::read_to_string(e.path()) {
                    for l in s.lines() {
                        if let Some(v) = l.strip_prefix("stat::number_of_executed_units:") {
                            execs += v.trim().parse::<u64>().unwrap_or(0);
                        }
                    }
                }
            }
        }
    }
    let mut crash = vec![];
    let mut other = 0usize;
    if let Ok(rd) = std::fs::read_dir(&artifacts) {
        for e in rd.filter_map(|e| e.ok()) {
            let name = e.file_name().to_string_lossy().to_string();
            if name.starts_with("crash-") {
                crash.push(e.path());
            } else {
                other += 1;
            }
        }
    }
    crash.sort();
    let final_files = std::fs::read_dir(&corpus).map(|r| r.count()).unwrap_or(0);
    // the working corpus is scratch: only artifacts are kept
    let _ = std::fs::remove_dir_all(&corpus);
    if crash.is_empty() && other == 0 {
        let _ = std::fs::remove_dir_all(&work);
    }
    Some(FuzzReport {
        execs,
        requested: per * workers as u64,
        corpus_seed_files: seeds,
        corpus_final_files: final_files,
        crash_artifacts: crash,
        other_artifacts: other,
        note: format!("libFuzzer exit status {:?}", status.map(|s| s.code())),
    })
}

pub fn known_open_signatures(id: &str) -> Vec<String> {
    load_known(id).into_iter().filter(|e| e.status == "open").map(|e| e.signature).collect()
}

struct Shared {
    evaluations: AtomicU64,
    nontrivial: Mutex<HashSet<u64>>,
    labels: Mutex<BTreeMap<&'static str, u64>>,
    known_hits: Mutex<BTreeMap<String, u64>>,
    sample_ids: Mutex<Vec<CaseId>>,
    any_ids: Mutex<Vec<CaseId>>,
    stop: AtomicBool,
    harness_bug: Mutex<Option<String>>,
}

impl Shared {
    fn new() -> Self {
        Shared {
            evaluations: AtomicU64::new(0),
            nontrivial: Mutex::new(HashSet::new()),
            labels: Mutex::new(BTreeMap::new()),
            known_hits: Mutex::new(BTreeMap::new()),
            sample_ids: Mutex::new(Vec::new()),
            any_ids: Mutex::new(Vec::new()),
            stop: AtomicBool::new(false),
            harness_bug: Mutex::new(None),
        }
    }

    fn absorb(&self, ctx: &Ctx, case: impl FnOnce() -> CaseId) {
        self.evaluations.fetch_add(1, Ordering::Relaxed);
        if ctx.nontrivial {
            let fresh = self.nontrivial.lock().unwrap().insert(ctx.fingerprint());
            if fresh {
                let mut s = self.sample_ids.lock().unwrap();
                if s.len() < 64 {
                    s.push(case());
                }
            }
        }
        if !ctx.labels.is_empty() {
            let mut l = self.labels.lock().unwrap();
            for (k, _) in ctx.labels.iter() {
                *l.entry(k).or_insert(0) += 1;
            }
        }
        if !ctx.known_hits.is_empty() {
            let mut k = self.known_hits.lock().unwrap();
            for h in ctx.known_hits.iter() {
                *k.entry(h.clone()).or_insert(0) += 1;
            }
        }
    }
}

struct LocalStats {
    evaluations: u64,
    nontrivial: HashSet<u64>,
    labels: BTreeMap<&'static str, u64>,
    known_hits: BTreeMap<String, u64>,
    samples: Vec<CaseId>,
    any: Vec<CaseId>,
}

impl LocalStats {
    fn new() -> Self {
        LocalStats {
            evaluations: 0,
            nontrivial: HashSet::new(),
            labels: BTreeMap::new(),
            known_hits: BTreeMap::new(),
            samples: vec![],
            any: vec![],
        }
    }
    fn absorb(&mut self, ctx: &Ctx, case: impl FnOnce() -> CaseId) {
        self.evaluations += 1;
        if ctx.nontrivial && self.nontrivial.insert(ctx.fingerprint()) && self.samples.len() < 4 {
            self.samples.push(case());
        } else if self.any.is_empty() {
            self.any.push(case());
        }
        for (k, _) in ctx.labels.iter() {
            *self.labels.entry(k).or_insert(0) += 1;
        }
        for h in ctx.known_hits.iter() {
            *self.known_hits.entry(h.clone()).or_insert(0) += 1;
        }
    }
    fn merge_into(self, sh: &Shared) {
        sh.evaluations.fetch_add(self.evaluations, Ordering::Relaxed);
        sh.nontrivial.lock().unwrap().extend(self.nontrivial);
        {
            let mut l = sh.labels.lock().unwrap();
            for (k, v) in self.labels {
                *l.entry(k).or_insert(0) += v;
            }
        }
        {
            let mut k = sh.known_hits.lock().unwrap();
            for (h, v) in self.known_hits {
                *k.entry(h).or_insert(0) += v;
            }
        }
        let mut s = sh.sample_ids.lock().unwrap();
        for c in self.samples {
            if s.len() < 64 {
                s.push(c);
            }
        }
        let mut a = sh.any_ids.lock().unwrap();
        for c in self.any {
            if a.len() < 4 {
                a.push(c);
            }
        }
    }
}

pub struct Violation {
    pub case: CaseId,
    pub fail: Fail,
    pub driver: String,
    /// tier whose bounds decoded the case (corpus files and fuzz artifacts may differ from the tier of the run)
    pub tier: Option<Tier>,
}

pub struct RunOptions {
    pub tier: Tier,
    pub seed: u64,
    pub threads: usize,
    /// Scale factor on PBT case counts (sensitivity experiments).
    pub scale: f64,
}

fn run_one(prop: &dyn Property, case: &CaseId, tier: Tier, known: &[String], trace: bool, strict: bool) -> (CaseRun, CtxSummary) {
    let bytes = match case {
        CaseId::Choices { hex } => from_hex(hex),
        _ => vec![],
    };
    let mut ctx = Ctx::new(&bytes, tier, known);
    ctx.trace_on = trace;
    ctx.strict = strict;
    let r = run_guarded(prop, case, &mut ctx);
    let summary = CtxSummary {
        trace: std::mem::take(&mut ctx.trace),
        nontrivial: ctx.nontrivial,
        labels: ctx.labels.keys().copied().collect(),
        known_hits: ctx.known_hits.clone(),
    };
    (r, summary)
}

pub struct CtxSummary {
    pub trace: Vec<String>,
    pub nontrivial: bool,
    pub labels: Vec<&'static str>,
    pub known_hits: Vec<String>,
}

fn write_replay(prop: &dyn Property, v: &Violation, known: &[String], tier: Tier) -> PathBuf {
    let tier = v.tier.unwrap_or(tier);
    let (_, summary) = run_one(prop, &v.case, tier, known, true, true);
    let dir = out_dir().join("replays");
    let _ = std::fs::create_dir_all(&dir);
    let body = serde_json::to_string(&v.case).unwrap_or_default();
    let h = fnv(body.as_bytes());
    let path = dir.join(format!("{}-{:016x}.case", prop.id(), h));
    let rf = ReplayFile {
        property: prop.id().to_string(),
        case: v.case.clone(),
        clause: v.fail.clause.clone(),
        detail: v.fail.detail.clone(),
        signature: v.fail.signature.clone(),
        trace: summary.trace,
        note: format!("found by driver {}", v.driver),
        tier: tier.name().to_string(),
    };
    let _ = std::fs::write(&path, serde_json::to_string_pretty(&rf).unwrap_or_default());
    path
}

/// Replay a single file in strict mode. Returns exit code.
pub fn replay(prop: &dyn Property, path: &Path) -> i32 {
    install_panic_hook();
    let Ok(s) = std::fs::read_to_string(path) else {
        eprintln!("cannot read {}", path.display());
        return 2;
    };
    let rf: ReplayFile = match serde_json::from_str(&s) {
        Ok(r) => r,
        Err(e) => {
            eprintln!("bad replay file: {e}");
            return 2;
        }
    };
    let known: Vec<String> = load_known(prop.id())
        .into_iter()
        .filter(|e| e.status == "open")
        .map(|e| e.signature)
        .collect();
    let tier = rf.tier_or(Tier::Thorough);
    let (mut r, mut summary) = run_one(prop, &rf.case, tier, &known, true, true);
    // a case whose outcome depends on the library's HashMap iteration order (random per instance) may need several runs
    for _ in 0..7 {
        if !matches!(r, CaseRun::Ok) {
            break;
        }
        (r, summary) = run_one(prop, &rf.case, tier, &known, true, true);
    }
    for l in summary.trace.iter() {
        println!("  {}", l);
    }
    match r {
        CaseRun::Ok => {
            if !summary.known_hits.is_empty() {
                println!("replay: case meets listed known finding(s): {:?}", summary.known_hits);
            }
            println!("replay: property {} holds on this case", prop.id());
            0
        }
        CaseRun::Fail(f) => {
            println!("clause: {}\ndetail: {}\nsignature: {}", f.clause, f.detail, f.signature);
            println!("VIOLATION property={} replay={}", prop.id(), path.display());
            1
        }
        CaseRun::HarnessBug(p) => {
            eprintln!("harness bug: {} at {}:{}", p.message, p.file, p.line);
            2
        }
    }
}

pub fn run(prop: &dyn Property, opt: &RunOptions) -> i32 {
    install_panic_hook();
    let start = Instant::now();
    let id = prop.id();
    let tier = opt.tier;
    let known_entries = load_known(id);
    let known_open: Vec<String> = known_entries.iter().filter(|e| e.status == "open").map(|e| e.signature.clone()).collect();

    // Watchdog: a hang is inconclusive (exit 2), never a violation.
    let limit_s: u64 = std::env::var("VERIF_WATCHDOG_S")
        .ok()
        .and_then(|v| v.parse().ok())
        .unwrap_or(tier.pick(1500, 7200));
    std::thread::spawn(move || {
        std::thread::sleep(std::time::Duration::from_secs(limit_s));
        eprintln!("INCONCLUSIVE: watchdog expired after {limit_s}s");
        std::process::exit(2);
    });

    let shared = Shared::new();
    let mut violations: Vec<Violation> = vec![];
    let mut drivers: BTreeMap<String, u64> = BTreeMap::new();
    let mut known_lines: Vec<String> = vec![];
    let mut inconclusive: Option<String> = None;

    // 1. known-finding witnesses: an open finding is reported while it still reproduces.
    for e in known_entries.iter().filter(|e| e.status == "open") {
        let mut reproduced = false;
        if let Some(w) = &e.witness {
            let p = verif_dir().join(w);
            if let Ok(s) = std::fs::read_to_string(&p) {
                if let Ok(rf) = serde_json::from_str::<ReplayFile>(&s) {
                    let (r, summary) = run_one(prop, &rf.case, rf.tier_or(tier), &known_open, false, true);
                    *drivers.entry("known_witness".into()).or_insert(0) += 1;
                    match r {
                        CaseRun::Ok => {
                            if summary.known_hits.iter().any(|h| *h == e.signature) {
                                reproduced = true;
                            }
                        }
                        CaseRun::Fail(f) => violations.push(Violation {
                            case: rf.case.clone(),
                            fail: f,
                            driver: "known_witness".into(),
                            tier: Some(rf.tier_or(tier)),
                        }),
                        CaseRun::HarnessBug(p) => inconclusive = Some(format!("harness bug: {} at {}:{}", p.message, p.file, p.line)),
                    }
                }
            }
        }
        if reproduced {
            known_lines.push(format!("KNOWN-FINDING: property={} {} [{}]", id, e.what, e.signature));
        } else {
            println!("note: listed finding [{}] did not reproduce from its witness on this tree", e.signature);
        }
    }

    // 2. regression corpus (shrunk counterexamples of every defect found; suppress nothing).
    let reg_dir = verif_dir().join("corpus").join(id).join("regress");
    let mut reg_files: Vec<PathBuf> = std::fs::read_dir(&reg_dir)
        .map(|rd| rd.filter_map(|e| e.ok()).map(|e| e.path()).collect())
        .unwrap_or_default();
    reg_files.sort();
    for p in reg_files.iter() {
        let Ok(s) = std::fs::read_to_string(p) else { continue };
        let Ok(rf) = serde_json::from_str::<ReplayFile>(&s) else {
            eprintln!("warning: unreadable regression file {}", p.display());
            continue;
        };
        let bytes = match &rf.case {
            CaseId::Choices { hex } => from_hex(hex),
            _ => vec![],
        };
        let mut ctx = Ctx::new(&bytes, rf.tier_or(tier), &known_open);
        let r = run_guarded(prop, &rf.case, &mut ctx);
        shared.absorb(&ctx, || rf.case.clone());
        *drivers.entry("regress".into()).or_insert(0) += 1;
        match r {
            CaseRun::Ok => {}
            CaseRun::Fail(f) => violations.push(Violation {
                case: rf.case.clone(),
                fail: f,
                driver: format!("regress:{}", p.file_name().and_then(|n| n.to_str()).unwrap_or("")),
                tier: Some(rf.tier_or(tier)),
            }),
            CaseRun::HarnessBug(p) => inconclusive = Some(format!("harness bug: {} at {}:{}", p.message, p.file, p.line)),
        }
    }

    // 3. enumerators (deterministic, sharded by index).
    let mut exhaustive_runs: Vec<serde_json::Value> = vec![];
    if violations.is_empty() && inconclusive.is_none() {
        for (name, count) in prop.enums(tier) {
            let next = AtomicU64::new(0);
            let found: Mutex<Option<Violation>> = Mutex::new(None);
            std::thread::scope(|s| {
                for _ in 0..opt.threads {
                    s.spawn(|| {
                        let mut local = LocalStats::new();
                        loop {
                            if shared.stop.load(Ordering::Relaxed) {
                                break;
                            }
                            let base = next.fetch_add(64, Ordering::Relaxed);
                            if base >= count {
                                break;
                            }
                            for index in base..(base + 64).min(count) {
                                let case = CaseId::Enum { name: name.to_string(), index };
                                let mut ctx = Ctx::new(&[], tier, &known_open);
                                let r = run_guarded(prop, &case, &mut ctx);
                                local.absorb(&ctx, || case.clone());
                                match r {
                                    CaseRun::Ok => {}
                                    CaseRun::Fail(f) => {
                                        let mut g = found.lock().unwrap();
                                        let better = match &*g {
                                            None => true,
                                            Some(v) => matches!(&v.case, CaseId::Enum { index: i, .. } if *i > index),
                                        };
                                        if better {
                                            *g = Some(Violation { case, fail: f, driver: format!("enum:{name}"), tier: None });
                                        }
                                        shared.stop.store(true, Ordering::Relaxed);
                                        break;
                                    }
                                    CaseRun::HarnessBug(p) => {
                                        *shared.harness_bug.lock().unwrap() =
                                            Some(format!("harness bug: {} at {}:{}", p.message, p.file, p.line));
                                        shared.stop.store(true, Ordering::Relaxed);
                                        break;
                                    }
                                }
                            }
                        }
                        local.merge_into(&shared);
                    });
                }
            });
            *drivers.entry(format!("enum:{name}")).or_insert(0) += count;
            let v = found.into_inner().unwrap();
            exhaustive_runs.push(serde_json::json!({"enumerator": name, "items": count, "completed": v.is_none()}));
            if let Some(v) = v {
                violations.push(v);
                break;
            }
            if shared.harness_bug.lock().unwrap().is_some() {
                break;
            }
        }
    }
    if let Some(h) = shared.harness_bug.lock().unwrap().clone() {
        inconclusive = Some(h);
    }

    // 4. proptest shards.
    let cfg = prop.pbt(tier);
    let total_cases = ((cfg.cases as f64) * opt.scale).max(0.0) as u64;
    if violations.is_empty() && inconclusive.is_none() && total_cases > 0 {
        let shards = opt.threads.max(1);
        let per = total_cases.div_ceil(shards as u64);
        let results: Mutex<Vec<(usize, Violation)>> = Mutex::new(vec![]);
        shared.stop.store(false, Ordering::Relaxed);
        std::thread::scope(|s| {
            for shard in 0..shards {
                let results = &results;
                let shared = &shared;
                let known_open = &known_open;
                s.spawn(move || {
                    let seed = splitmix(opt.seed ^ fnv(id.as_bytes()) ^ ((shard as u64) << 48));
                    let mut seed_bytes = [0u8; 32];
                    fill_stream(seed, &mut seed_bytes);
                    let config = Config {
                        cases: per as u32,
                        failure_persistence: None,
                        rng_algorithm: RngAlgorithm::ChaCha,
                        rng_seed: RngSeed::Fixed(seed),
                        max_shrink_iters: 60_000,
                        max_shrink_time: cfg.shrink_ms,
                        max_global_rejects: 1,
                        ..Config::default()
                    };
                    let mut runner = TestRunner::new(config);
                    let failed = std::cell::Cell::new(false);
                    let local = RefCell::new(LocalStats::new());
                    let harness_bug: RefCell<Option<String>> = RefCell::new(None);
                    // Length mix: many short cases, some at the full length.
                    let strategy = (0usize..4, pvec(any::<u8>(), 0..=cfg.max_len)).prop_map(move |(k, mut v)| {
                        let keep = match k {
                            0 => v.len() / 8,
                            1 => v.len() / 3,
                            _ => v.len(),
                        };
                        v.truncate(keep.max(v.len().min(8)));
                        v
                    });
                    let result = runner.run(&strategy, |bytes| {
                        if shared.stop.load(Ordering::Relaxed) && !failed.get() {
                            // another shard failed or a harness bug: finish quickly
                            return Ok(());
                        }
                        let case = CaseId::Choices { hex: String::new() };
                        let mut ctx = Ctx::new(&bytes, tier, known_open);
                        let r = run_guarded(prop, &case, &mut ctx);
                        if !failed.get() {
                            local.borrow_mut().absorb(&ctx, || CaseId::choices(&bytes));
                        }
                        match r {
                            CaseRun::Ok => Ok(()),
                            CaseRun::Fail(f) => {
                                failed.set(true);
                                Err(TestCaseError::fail(format!("{}|{}|{}", f.clause, f.signature, f.detail)))
                            }
                            CaseRun::HarnessBug(p) => {
                                *harness_bug.borrow_mut() = Some(format!("harness bug: {} at {}:{}", p.message, p.file, p.line));
                                shared.stop.store(true, Ordering::Relaxed);
                                Ok(())
                            }
                        }
                    });
                    local.into_inner().merge_into(shared);
                    if let Some(h) = harness_bug.into_inner() {
                        *shared.harness_bug.lock().unwrap() = Some(h);
                    }
                    match result {
                        Ok(()) => {}
                        Err(TestError::Fail(_reason, value)) => {
                            shared.stop.store(true, Ordering::Relaxed);
                            // Re-run the shrunk value to get its own verdict.
                            let case = CaseId::choices(&value);
                            // the library iterates HashMaps with per-instance random state: a defect that depends on that order
                            // shows in some runs of a case only, so the verdict is taken from up to eight runs
                            let mut verdict = None;
                            for _ in 0..8 {
                                if let (CaseRun::Fail(f), _) = run_one(prop, &case, tier, known_open, false, true) {
                                    verdict = Some(f);
                                    break;
                                }
                            }
                            if let Some(f) = verdict {
                                results.lock().unwrap().push((shard, Violation { case, fail: f, driver: format!("proptest shard {shard}"), tier: None }));
                            } else {
                                *shared.harness_bug.lock().unwrap() =
                                    Some("shrunk counterexample did not reproduce (non-deterministic case?)".to_string());
                            }
                        }
                        Err(TestError::Abort(reason)) => {
                            *shared.harness_bug.lock().unwrap() = Some(format!("proptest aborted: {reason}"));
                        }
                    }
                });
            }
        });
        *drivers.entry("proptest".into()).or_insert(0) += total_cases;
        let mut rs = results.into_inner().unwrap();
        rs.sort_by_key(|(s, _)| *s);
        if let Some((_, v)) = rs.into_iter().next() {
            violations.push(v);
        }
        if let Some(h) = shared.harness_bug.lock().unwrap().clone() {
            inconclusive = Some(h);
        }
    }

    // 5. coverage-guided driver (thorough tier, when the target was pre-built by ./check)
    let mut fuzz_json = serde_json::json!(null);
    if tier == Tier::Thorough && violations.is_empty() && inconclusive.is_none() && std::env::var("VERIF_NO_FUZZ").is_err() {
        if let Some(rep) = run_fuzz(prop, opt.seed, opt.threads, opt.scale) {
            *drivers.entry("libfuzzer".into()).or_insert(0) += rep.execs;
            shared.evaluations.fetch_add(rep.execs, Ordering::Relaxed);
            let mut reproduced = 0;
            for a in rep.crash_artifacts.iter() {
                if let Ok(bytes) = std::fs::read(a) {
                    let case = CaseId::choices(&bytes);
                    // the fuzz target decodes its inputs with the quick tier's bounds
                    let (r, _) = run_one(prop, &case, Tier::Quick, &known_open, false, true);
                    match r {
                        CaseRun::Fail(f) => {
                            reproduced += 1;
                            if violations.is_empty() {
                                violations.push(Violation { case, fail: f, driver: format!("libfuzzer artifact {}", a.display()), tier: Some(Tier::Quick) });
                            }
                        }
                        CaseRun::HarnessBug(p) => inconclusive = Some(format!("harness bug on fuzz artifact: {} at {}:{}", p.message, p.file, p.line)),
                        CaseRun::Ok => {}
                    }
                }
            }
            fuzz_json = serde_json::json!({
                "runs_requested": rep.requested,
                "executions": rep.execs,
                "corpus_seed_files": rep.corpus_seed_files,
                "corpus_final_files": rep.corpus_final_files,
                "crash_artifacts": rep.crash_artifacts.len(),
                "crash_artifacts_reproduced_in_strict_replay": reproduced,
                "other_artifacts_(timeout/oom: inconclusive)": rep.other_artifacts,
                "note": rep.note,
            });
        } else {
            fuzz_json = serde_json::json!({"note": "libFuzzer target not built (RV_FUZZ_BIN unset): coverage-guided driver skipped"});
        }
    }

    // Samples: re-run a few recorded non-trivial cases with tracing on.
    let mut samples: Vec<serde_json::Value> = vec![];
    {
        let mut ids = shared.sample_ids.lock().unwrap().clone();
        if ids.is_empty() {
            // no non-trivial case recorded (e.g. the run stopped at a violation): show what was run
            ids = shared.any_ids.lock().unwrap().clone();
            for v in violations.iter() {
                ids.push(v.case.clone());
            }
        }
        let n = ids.len();
        let picks: Vec<usize> = if n <= 4 { (0..n).collect() } else { vec![0, n / 3, (2 * n) / 3, n - 1] };
        for i in picks {
            let (_, summary) = run_one(prop, &ids[i], tier, &known_open, true, false);
            let mut t = summary.trace;
            let total = t.len();
            if total > 60 {
                t.truncate(60);
                t.push(format!("... ({} more operations)", total - 60));
            }
            samples.push(serde_json::json!({"case": ids[i], "labels": summary.labels, "operations": t}));
        }
    }

    let evaluations = shared.evaluations.load(Ordering::Relaxed);
    let distinct_nontrivial = shared.nontrivial.lock().unwrap().len() as u64;
    let labels = shared.labels.lock().unwrap().clone();
    let known_hits = shared.known_hits.lock().unwrap().clone();
    let required = prop.required_labels();
    let missing: Vec<&str> = required.iter().copied().filter(|l| !labels.contains_key(l)).collect();

    let mut replay_paths: Vec<String> = vec![];
    for v in violations.iter() {
        let p = write_replay(prop, v, &known_open, tier);
        replay_paths.push(p.display().to_string());
    }

    let wall = start.elapsed().as_secs_f64();
    let mut assumptions = prop.assumptions();
    assumptions.push(
        "library and harness built with overflow-checks and debug-assertions on (an arithmetic overflow counts as 'does not return normally / wraps around')".into(),
    );
    assumptions.push("a pass means no counterexample among the generated cases; it does not establish absence".into());
    let evidence = serde_json::json!({
        "property_id": id,
        "tier": tier.name(),
        "seed": opt.seed,
        "level": prop.level(),
        "coverage": {
            "evaluations": evaluations,
            "distinct_nontrivial": distinct_nontrivial,
            "rule": prop.rule(),
            "samples": samples,
            "label_histogram_cases": labels,
            "required_labels_missing": missing,
            "drivers": drivers,
            "enumerators": exhaustive_runs,
            "exhaustive": false,
            "known_finding_hits_excluded": known_hits,
            "pbt_cases_requested": total_cases,
            "pbt_max_choice_bytes": cfg.max_len,
            "libfuzzer": fuzz_json,
        },
        "assumptions": assumptions,
        "wall_s": wall,
        "violations": violations.len(),
        "inconclusive": inconclusive,
    });
    let ev_dir = out_dir().join("evidence");
    let _ = std::fs::create_dir_all(&ev_dir);
    let ev_path = ev_dir.join(format!("{}.json", id));
    if let Err(e) = std::fs::write(&ev_path, serde_json::to_string_pretty(&evidence).unwrap()) {
        eprintln!("cannot write evidence: {e}");
    }

    println!(
        "{} {}: evaluations={} distinct_nontrivial={} wall={:.1}s known_excluded={:?}",
        id,
        tier.name(),
        evaluations,
        distinct_nontrivial,
        wall,
        known_hits
    );
    if !missing.is_empty() {
        println!("warning: required labels never seen: {:?}", missing);
    }
    for l in known_lines {
        println!("{}", l);
    }
    if let Some(msg) = inconclusive {
        eprintln!("INCONCLUSIVE: {}", msg);
        return 2;
    }
    if !violations.is_empty() {
        for (v, p) in violations.iter().zip(replay_paths.iter()) {
            println!("clause={} signature={} detail={}", v.fail.clause, v.fail.signature, v.fail.detail);
            println!("VIOLATION property={} replay={}", id, p);
        }
        return 1;
    }
    0
}
