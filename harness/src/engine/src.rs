//! Choice source: a case is a byte string consumed left to right.
//! Exhausted input yields zeros; `0` always decodes to the most benign alternative.

#[derive(Clone)]
pub struct Src<'a> {
    data: &'a [u8],
    pos: usize,
}

impl<'a> Src<'a> {
    pub fn new(data: &'a [u8]) -> Self {
        Self { data, pos: 0 }
    }

    pub fn exhausted(&self) -> bool {
        self.pos >= self.data.len()
    }

    pub fn consumed(&self) -> usize {
        self.pos.min(self.data.len())
    }

    pub fn remaining(&self) -> usize {
        self.data.len().saturating_sub(self.pos)
    }

    pub fn u8(&mut self) -> u8 {
        let b = self.data.get(self.pos).copied().unwrap_or(0);
        self.pos += 1;
        b
    }

    pub fn u16(&mut self) -> u16 {
        let hi = self.u8() as u16;
        let lo = self.u8() as u16;
        (hi << 8) | lo
    }

    pub fn u32(&mut self) -> u32 {
        ((self.u16() as u32) << 16) | self.u16() as u32
    }

    pub fn u64(&mut self) -> u64 {
        ((self.u32() as u64) << 32) | self.u32() as u64
    }

    /// Uniform in `0..n` (monotone in the byte value, so shrinking moves towards 0).
    pub fn below(&mut self, n: usize) -> usize {
        if n <= 1 {
            return 0;
        }
        if n <= 256 {
            (self.u8() as usize * n) >> 8
        } else if n <= 65536 {
            (self.u16() as usize * n) >> 16
        } else {
            ((self.u32() as u64 * n as u64) >> 32) as usize
        }
    }

    /// Inclusive range.
    pub fn range(&mut self, lo: usize, hi: usize) -> usize {
        debug_assert!(lo <= hi);
        lo + self.below(hi - lo + 1)
    }

    /// True with probability `num/256`; a zero byte is always `false`.
    pub fn chance(&mut self, num: u32) -> bool {
        let b = self.u8() as u32;
        b >= 256 - num.min(256)
    }

    /// Index chosen with the given weights (sum need not be 256). Index 0 is the benign one.
    pub fn weighted(&mut self, weights: &[u32]) -> usize {
        let total: u32 = weights.iter().sum();
        if total == 0 {
            return 0;
        }
        let b = self.u8() as u32;
        let x = (b * total) >> 8;
        let mut acc = 0;
        for (i, w) in weights.iter().enumerate() {
            acc += *w;
            if x < acc {
                return i;
            }
        }
        weights.len() - 1
    }

    pub fn pick<T: Copy>(&mut self, items: &[T]) -> T {
        items[self.below(items.len())]
    }

    pub fn bytes(&mut self, n: usize) -> Vec<u8> {
        (0..n).map(|_| self.u8()).collect()
    }
}

pub fn splitmix(mut z: u64) -> u64 {
    z = z.wrapping_add(0x9E37_79B9_7F4A_7C15);
    z = (z ^ (z >> 30)).wrapping_mul(0xBF58_476D_1CE4_E5B9);
    z = (z ^ (z >> 27)).wrapping_mul(0x94D0_49BB_1331_11EB);
    z ^ (z >> 31)
}

/// Deterministic keyed byte stream (message contents, keys).
pub fn fill_stream(key: u64, out: &mut [u8]) {
    let mut s = key;
    let mut i = 0;
    while i < out.len() {
        s = s.wrapping_add(0x9E37_79B9_7F4A_7C15);
        let v = splitmix(s).to_le_bytes();
        let n = (out.len() - i).min(8);
        out[i..i + n].copy_from_slice(&v[..n]);
        i += n;
    }
}

pub fn fnv(data: &[u8]) -> u64 {
    let mut h: u64 = 0xcbf29ce484222325;
    for b in data {
        h ^= *b as u64;
        h = h.wrapping_mul(0x100000001b3);
    }
    h
}
