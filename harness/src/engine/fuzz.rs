//! Entry point of the libFuzzer targets: the fuzz input is the choice sequence of a property.
//! A violation writes a replay file and aborts, so libFuzzer keeps the input as an artifact.

use super::runner::{out_dir, ReplayFile};
use super::*;
use std::sync::OnceLock;

struct State {
    prop: Box<dyn Property>,
    known_open: Vec<String>,
}

static STATE: OnceLock<State> = OnceLock::new();

pub fn fuzz_one(id: &str, data: &[u8]) {
    let st = STATE.get_or_init(|| {
        install_panic_hook();
        let prop = crate::props::by_id(id).expect("known property id");
        let known_open = super::runner::known_open_signatures(id);
        State { prop, known_open }
    });
    let case = CaseId::Choices { hex: String::new() };
    let mut ctx = Ctx::new(data, Tier::Quick, &st.known_open);
    match run_guarded(st.prop.as_ref(), &case, &mut ctx) {
        CaseRun::Ok => {}
        CaseRun::Fail(f) => {
            let dir = out_dir().join("replays");
            let _ = std::fs::create_dir_all(&dir);
            let path = dir.join(format!("{}-fuzz-{:016x}.case", st.prop.id(), fnv(data)));
            let rf = ReplayFile {
                property: st.prop.id().to_string(),
                case: CaseId::choices(data),
                clause: f.clause.clone(),
                detail: f.detail.clone(),
                signature: f.signature.clone(),
                trace: vec![],
                note: "found by the libFuzzer driver".into(),
                tier: Tier::Quick.name().to_string(),
            };
            let _ = std::fs::write(&path, serde_json::to_string_pretty(&rf).unwrap_or_default());
            eprintln!("FUZZ-VIOLATION property={} clause={} replay={}", st.prop.id(), f.clause, path.display());
            std::process::abort();
        }
        CaseRun::HarnessBug(p) => {
            eprintln!("FUZZ-HARNESS-BUG {} at {}:{}", p.message, p.file, p.line);
            std::process::abort();
        }
    }
}
