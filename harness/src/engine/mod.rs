//! Engine: case context, property trait, panic capture, drivers (replay corpus,
//! enumerators, proptest), evidence and replay files, known findings.

pub mod fuzz;
pub mod runner;
pub mod src;

pub use src::{fill_stream, fnv, splitmix, Src};

use std::cell::RefCell;
use std::collections::BTreeMap;
use std::hash::{Hash, Hasher};

#[derive(Clone, Copy, Debug, PartialEq, Eq)]
pub enum Tier {
    Quick,
    Thorough,
}

impl Tier {
    pub fn name(self) -> &'static str {
        match self {
            Tier::Quick => "quick",
            Tier::Thorough => "thorough",
        }
    }
    pub fn pick<T>(self, quick: T, thorough: T) -> T {
        match self {
            Tier::Quick => quick,
            Tier::Thorough => thorough,
        }
    }
}

/// A violated clause of the property.
#[derive(Clone, Debug)]
pub struct Fail {
    /// Short stable name of the violated clause (e.g. "prefix", "panic").
    pub clause: String,
    /// Human readable description of what was observed.
    pub detail: String,
    /// Precise signature used to match known findings.
    pub signature: String,
}

impl Fail {
    pub fn new(clause: &str, detail: impl Into<String>) -> Self {
        Fail {
            clause: clause.to_string(),
            detail: detail.into(),
            signature: clause.to_string(),
        }
    }
    pub fn sig(mut self, signature: impl Into<String>) -> Self {
        self.signature = signature.into();
        self
    }
}

pub type Outcome = Result<(), Fail>;

/// Identity of a case: a choice sequence or an item of a deterministic enumerator.
#[derive(Clone, Debug, PartialEq, Eq, serde::Serialize, serde::Deserialize)]
#[serde(tag = "kind")]
pub enum CaseId {
    #[serde(rename = "choices")]
    Choices { hex: String },
    #[serde(rename = "enum")]
    Enum { name: String, index: u64 },
}

impl CaseId {
    pub fn choices(bytes: &[u8]) -> Self {
        CaseId::Choices { hex: to_hex(bytes) }
    }
}

pub fn to_hex(b: &[u8]) -> String {
    let mut s = String::with_capacity(b.len() * 2);
    for x in b {
        s.push_str(&format!("{:02x}", x));
    }
    s
}

pub fn from_hex(s: &str) -> Vec<u8> {
    let s = s.as_bytes();
    (0..s.len() / 2)
        .map(|i| {
            let h = (s[2 * i] as char).to_digit(16).unwrap_or(0) as u8;
            let l = (s[2 * i + 1] as char).to_digit(16).unwrap_or(0) as u8;
            (h << 4) | l
        })
        .collect()
}

/// Per-case context handed to a property.
pub struct Ctx<'a> {
    pub src: Src<'a>,
    pub tier: Tier,
    /// When set, decoded operations are recorded as text (samples, replay files).
    pub trace_on: bool,
    pub trace: Vec<String>,
    pub labels: BTreeMap<&'static str, u32>,
    pub nontrivial: bool,
    hasher: std::collections::hash_map::DefaultHasher,
    /// Signatures of open known findings (excluded by construction when met).
    pub known_open: &'a [String],
    pub known_hits: Vec<String>,
    /// Strict mode (replay): nothing is tolerated silently.
    pub strict: bool,
}

impl<'a> Ctx<'a> {
    pub fn new(data: &'a [u8], tier: Tier, known_open: &'a [String]) -> Self {
        Ctx {
            src: Src::new(data),
            tier,
            trace_on: false,
            trace: Vec::new(),
            labels: BTreeMap::new(),
            nontrivial: false,
            hasher: std::collections::hash_map::DefaultHasher::new(),
            known_open,
            known_hits: Vec::new(),
            strict: false,
        }
    }

    /// Record a decoded operation: always part of the fingerprint, text only when tracing.
    pub fn op<T: Hash + std::fmt::Debug>(&mut self, op: &T) {
        op.hash(&mut self.hasher);
        if self.trace_on && self.trace.len() < 4000 {
            self.trace.push(format!("{:?}", op));
        }
    }

    /// Free-text note in the trace (not part of the fingerprint).
    pub fn note(&mut self, f: impl FnOnce() -> String) {
        if self.trace_on && self.trace.len() < 4000 {
            self.trace.push(f());
        }
    }

    pub fn label(&mut self, l: &'static str) {
        *self.labels.entry(l).or_insert(0) += 1;
    }

    pub fn has(&self, l: &'static str) -> bool {
        self.labels.contains_key(l)
    }

    pub fn count(&self, l: &'static str) -> u32 {
        self.labels.get(l).copied().unwrap_or(0)
    }

    pub fn fingerprint(&self) -> u64 {
        self.hasher.clone().finish()
    }

    /// A condition matching the exact signature of a listed open finding ends the case
    /// benignly (counted); any other signature is a violation.
    pub fn fail_or_known(&mut self, f: Fail) -> Outcome {
        if self.known_open.iter().any(|s| *s == f.signature) {
            self.known_hits.push(f.signature.clone());
            Ok(())
        } else {
            Err(f)
        }
    }

    pub fn is_known(&self, signature: &str) -> bool {
        self.known_open.iter().any(|s| s == signature)
    }
}

#[derive(Clone, Copy, Debug)]
pub struct PbtCfg {
    pub cases: u64,
    pub max_len: usize,
    /// wall-clock cap for shrinking one counterexample (ms)
    pub shrink_ms: u32,
}

pub trait Property: Send + Sync {
    fn id(&self) -> &'static str;
    /// "exploration" | "fault_enumeration"
    fn level(&self) -> &'static str;
    fn rule(&self) -> String;
    fn assumptions(&self) -> Vec<String>;
    fn pbt(&self, tier: Tier) -> PbtCfg;
    fn run_choices(&self, ctx: &mut Ctx) -> Outcome;
    /// Deterministic enumerators: (name, number of items).
    fn enums(&self, _tier: Tier) -> Vec<(&'static str, u64)> {
        vec![]
    }
    fn run_enum(&self, _name: &str, _index: u64, _ctx: &mut Ctx) -> Outcome {
        Ok(())
    }
    /// Labels that must have been seen at least once in the run as a whole for the
    /// run to count as having exercised the property (reported in the evidence).
    fn required_labels(&self) -> Vec<&'static str> {
        vec![]
    }
}

// ---------------------------------------------------------------------------
// Panic capture

#[derive(Clone, Debug)]
pub struct PanicInfo {
    pub file: String,
    pub line: u32,
    pub message: String,
}

thread_local! {
    static LAST_PANIC: RefCell<Option<PanicInfo>> = const { RefCell::new(None) };
}

pub fn install_panic_hook() {
    std::panic::set_hook(Box::new(|info| {
        let (file, line) = info
            .location()
            .map(|l| (l.file().to_string(), l.line()))
            .unwrap_or_else(|| ("<unknown>".to_string(), 0));
        let message = if let Some(s) = info.payload().downcast_ref::<&str>() {
            s.to_string()
        } else if let Some(s) = info.payload().downcast_ref::<String>() {
            s.clone()
        } else {
            "<non-string panic>".to_string()
        };
        LAST_PANIC.with(|p| *p.borrow_mut() = Some(PanicInfo { file, line, message }));
    }));
}

pub fn take_panic() -> Option<PanicInfo> {
    LAST_PANIC.with(|p| p.borrow_mut().take())
}

pub fn is_harness_file(file: &str) -> bool {
    file.contains("harness/src") || file.contains("/verif/") || file.starts_with("src/")
}

/// Path of a panic location relative to the repository when possible.
pub fn rel_repo(file: &str) -> String {
    for marker in ["/renet/src/", "/renetcode/src/", "/renet_netcode/src/"] {
        if let Some(i) = file.find(marker) {
            return file[i + 1..].to_string();
        }
    }
    file.to_string()
}

pub enum CaseRun {
    Ok,
    Fail(Fail),
    /// Panic inside the harness itself: inconclusive, never a violation.
    HarnessBug(PanicInfo),
}

/// Run one case under `catch_unwind`; a panic raised from library code is a violation of
/// "returns normally", a panic raised from harness code is a harness bug.
pub fn run_guarded(prop: &dyn Property, case: &CaseId, ctx: &mut Ctx) -> CaseRun {
    let r = std::panic::catch_unwind(std::panic::AssertUnwindSafe(|| match case {
        CaseId::Choices { .. } => prop.run_choices(ctx),
        CaseId::Enum { name, index } => prop.run_enum(name, *index, ctx),
    }));
    match r {
        Ok(Ok(())) => CaseRun::Ok,
        Ok(Err(f)) if f.signature == "harness_io" => CaseRun::HarnessBug(PanicInfo { file: "harness environment".into(), line: 0, message: format!("{}: {}", f.clause, f.detail) }),
        Ok(Err(f)) => {
            // exactly the signature of a listed open finding: the case ends here, counted, not a violation
            if ctx.is_known(&f.signature) {
                ctx.known_hits.push(f.signature.clone());
                CaseRun::Ok
            } else {
                CaseRun::Fail(f)
            }
        }
        Err(_) => {
            let info = take_panic().unwrap_or(PanicInfo {
                file: "<unknown>".into(),
                line: 0,
                message: "panic without hook info".into(),
            });
            if is_harness_file(&info.file) {
                CaseRun::HarnessBug(info)
            } else {
                let file = rel_repo(&info.file);
                let f = Fail::new(
                    "panic",
                    format!("library call unwound: {} at {}:{}", info.message, file, info.line),
                )
                .sig(format!("panic@{}:{}", file, info.line));
                if ctx.is_known(&f.signature) {
                    ctx.known_hits.push(f.signature.clone());
                    CaseRun::Ok
                } else {
                    CaseRun::Fail(f)
                }
            }
        }
    }
}
