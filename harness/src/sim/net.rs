//! Netcode world: NetcodeServer(s), NetcodeClients, tokens, and a pool recording every
//! datagram any endpoint ever emitted (provenance: genuine = the harness watched it being produced).

use crate::engine::*;
use renetcode::verif::Packet as NPacket;
use renetcode::{ClientAuthentication, ConnectToken, NetcodeClient, NetcodeServer, ServerAuthentication, ServerConfig, ServerResult, NETCODE_USER_DATA_BYTES};
use std::net::{IpAddr, Ipv4Addr, SocketAddr};
use std::time::Duration;

pub const PROTO: u64 = 0x7e57_0001;
pub const PROTO_OTHER: u64 = 0x7e57_0002;

pub fn server_addr(i: usize) -> SocketAddr {
    SocketAddr::new(IpAddr::V4(Ipv4Addr::new(10, 0, 0, 1 + i as u8)), 5000)
}

/// Second public address of server `i`: another family, another ip, another port.
pub fn server_alt_addr(i: usize) -> SocketAddr {
    SocketAddr::new(IpAddr::V6(std::net::Ipv6Addr::new(0xfd00, 0, 0, 0, 0, 0, 0, 1 + i as u16)), 6000 + i as u16)
}

/// Addresses that are NOT public addresses of server `i` but share an ip or a port with them (a sibling service on the same host,
/// the ip of one public address with the port of the other).
pub fn near_miss_addrs(i: usize) -> [SocketAddr; 4] {
    let (a, b) = (server_addr(i), server_alt_addr(i));
    [SocketAddr::new(a.ip(), b.port()), SocketAddr::new(b.ip(), a.port()), SocketAddr::new(b.ip(), b.port() + 1), SocketAddr::new(a.ip(), a.port() + 1)]
}

pub fn client_addr(i: usize) -> SocketAddr {
    SocketAddr::new(IpAddr::V4(Ipv4Addr::new(192, 168, 0, 10 + i as u8)), 4000 + i as u16)
}

/// Client ids of a case are `id_base(seed) + small number`: ids of every magnitude are legal (account numbers, 64-bit platform
/// ids, random values), and nothing may depend on an id being small.
pub fn id_base(seed: u64) -> u64 {
    match (seed >> 9) % 8 {
        0..=2 => 0,
        3 => 1 << 56,
        4 => (1 << 63) + 5,
        5 => u64::MAX - 5_000,
        6 => 0x0110_0001_0000_0000,
        _ => (1 << 32) - 2,
    }
}

pub fn key(n: u64) -> [u8; 32] {
    let mut k = [0u8; 32];
    fill_stream(0x5eed_0000 + n, &mut k);
    k
}

pub fn user_data(n: u64) -> [u8; NETCODE_USER_DATA_BYTES] {
    let mut k = [0u8; NETCODE_USER_DATA_BYTES];
    fill_stream(0xda7a_0000 + n, &mut k);
    k
}

#[derive(Clone, Copy, Debug, PartialEq, Eq, Hash)]
pub enum Emitter {
    Server(usize),
    Client(usize),
    Harness,
}

#[derive(Clone, Debug)]
pub struct Dgram {
    pub bytes: Vec<u8>,
    pub from: Emitter,
    /// address the datagram was addressed to
    pub to: SocketAddr,
    /// source address of the emitter
    pub src: SocketAddr,
    pub kind: u8,
    pub seq: u64,
    /// payload given to generate_payload_packet (payload kind only)
    pub payload: Option<Vec<u8>>,
    /// how many times it was presented to its intended receiver unmodified
    pub presented: u32,
    pub at: Duration,
}

/// (packet type, sequence length, sequence) read from the clear-text prefix.
pub fn parse_prefix(b: &[u8]) -> (u8, usize, u64) {
    if b.is_empty() {
        return (255, 0, 0);
    }
    let kind = b[0] & 0x0F;
    let len = (b[0] >> 4) as usize;
    let mut s = [0u8; 8];
    if kind != 0 && len <= 8 && b.len() > len {
        s[..len].copy_from_slice(&b[1..1 + len]);
    }
    (kind, len, u64::from_le_bytes(s))
}

pub struct TokenSpec {
    pub client_id: u64,
    pub user: u64,
    pub expire_seconds: u64,
    pub timeout: i32,
    pub addrs: Vec<SocketAddr>,
    pub key: [u8; 32],
    pub protocol: u64,
}

pub struct ClientEnd {
    pub client: NetcodeClient,
    pub addr: SocketAddr,
    pub token: ConnectToken,
    pub client_id: u64,
    pub user: u64,
    /// datagram ids (pool) emitted by this client
    pub sent: Vec<usize>,
    pub payloads_got: Vec<Vec<u8>>,
}

pub struct ServerEnd {
    pub server: NetcodeServer,
    pub key: [u8; 32],
    pub protocol: u64,
    pub addr: SocketAddr,
    /// second public address of the same server
    pub alt: SocketAddr,
    pub max_clients: usize,
}

impl ServerEnd {
    pub fn is_at(&self, a: SocketAddr) -> bool {
        self.addr == a || self.alt == a
    }
}

#[derive(Debug, Clone, PartialEq, Eq)]
pub enum SrvOut {
    None,
    Send { to: SocketAddr, did: usize },
    Payload { client_id: u64, payload: Vec<u8> },
    Connected { client_id: u64, addr: SocketAddr, user_data: Vec<u8>, did: usize },
    Disconnected { client_id: u64, addr: SocketAddr, did: Option<usize> },
}

pub struct NetWorld {
    pub servers: Vec<ServerEnd>,
    pub clients: Vec<ClientEnd>,
    pub pool: Vec<Dgram>,
    pub now: Duration,
    /// seconds the clients' clocks differ from the servers' (and the token issuer's): a client only ever uses differences of its own
    /// clock, so whether it counts from its start-up, from 1970 or runs a few minutes ahead or behind must not matter
    pub client_skew: i64,
}

pub fn mk_server(i: usize, key_n: u64, protocol: u64, max_clients: usize, now: Duration, secure: bool) -> ServerEnd {
    let k = key(key_n);
    let server = NetcodeServer::new(ServerConfig {
        current_time: now,
        max_clients,
        protocol_id: protocol,
        // every server is reachable under two public addresses; tokens usually list the first
        public_addresses: vec![server_addr(i), server_alt_addr(i)],
        authentication: if secure { ServerAuthentication::Secure { private_key: k } } else { ServerAuthentication::Unsecure },
    });
    ServerEnd { server, key: k, protocol, addr: server_addr(i), alt: server_alt_addr(i), max_clients }
}

impl NetWorld {
    pub fn new(seed: u64) -> Self {
        renetcode::verif::set_rng_seed(Some(seed | 1));
        let client_skew = match (seed >> 2) % 8 {
            0..=3 => 0,
            4 => 120,
            5 => 1_790_000_000,
            6 => -900,
            _ => 7,
        };
        NetWorld { servers: vec![], clients: vec![], pool: vec![], now: Duration::from_secs(1000), client_skew }
    }

    pub fn mint(&self, t: &TokenSpec) -> ConnectToken {
        let ud = user_data(t.user);
        ConnectToken::generate(self.now, t.protocol, t.expire_seconds, t.client_id, t.timeout, t.addrs.clone(), Some(&ud), &t.key).expect("token generation with valid arguments")
    }

    pub fn add_client(&mut self, token: ConnectToken, addr: SocketAddr, user: u64) -> usize {
        let client_clock = if self.client_skew >= 0 { self.now + Duration::from_secs(self.client_skew as u64) } else { self.now.saturating_sub(Duration::from_secs(self.client_skew.unsigned_abs())) };
        let client = NetcodeClient::new(client_clock, ClientAuthentication::Secure { connect_token: token.clone() }).expect("client from a generated token");
        let client_id = token.client_id;
        self.clients.push(ClientEnd { client, addr, token, client_id, user, sent: vec![], payloads_got: vec![] });
        self.clients.len() - 1
    }

    pub fn record(&mut self, bytes: &[u8], from: Emitter, src: SocketAddr, to: SocketAddr, payload: Option<Vec<u8>>) -> usize {
        let (kind, _, seq) = parse_prefix(bytes);
        self.pool.push(Dgram { bytes: bytes.to_vec(), from, to, src, kind, seq, payload, presented: 0, at: self.now });
        self.pool.len() - 1
    }

    /// Client update: advances its clock; records the datagram it wants to send, if any.
    pub fn client_update(&mut self, c: usize, dt: Duration) -> Option<usize> {
        let ce = &mut self.clients[c];
        let out = ce.client.update(dt).map(|(b, a)| (b.to_vec(), a));
        out.map(|(b, to)| {
            let src = self.clients[c].addr;
            let did = self.record(&b, Emitter::Client(c), src, to, None);
            self.clients[c].sent.push(did);
            did
        })
    }

    pub fn client_payload(&mut self, c: usize, payload: &[u8]) -> Result<usize, String> {
        let r = self.clients[c].client.generate_payload_packet(payload).map(|(a, b)| (a, b.to_vec())).map_err(|e| e.to_string());
        r.map(|(to, b)| {
            let src = self.clients[c].addr;
            let did = self.record(&b, Emitter::Client(c), src, to, Some(payload.to_vec()));
            self.clients[c].sent.push(did);
            did
        })
    }

    pub fn client_disconnect(&mut self, c: usize) -> Option<usize> {
        let r = self.clients[c].client.disconnect().map(|(a, b)| (a, b.to_vec())).ok();
        r.map(|(to, b)| {
            let src = self.clients[c].addr;
            self.record(&b, Emitter::Client(c), src, to, None)
        })
    }

    pub fn server_payload(&mut self, s: usize, client_id: u64, payload: &[u8]) -> Result<usize, String> {
        let r = self.servers[s].server.generate_payload_packet(client_id, payload).map(|(a, b)| (a, b.to_vec())).map_err(|e| e.to_string());
        r.map(|(to, b)| {
            let src = self.servers[s].addr;
            self.record(&b, Emitter::Server(s), src, to, Some(payload.to_vec()))
        })
    }

    fn convert(&mut self, s: usize, r: OwnedResult) -> SrvOut {
        let src = self.servers[s].addr;
        match r {
            OwnedResult::None => SrvOut::None,
            OwnedResult::Send { to, bytes } => {
                let did = self.record(&bytes, Emitter::Server(s), src, to, None);
                SrvOut::Send { to, did }
            }
            OwnedResult::Payload { client_id, payload } => SrvOut::Payload { client_id, payload },
            OwnedResult::Connected { client_id, addr, user_data, bytes } => {
                let did = self.record(&bytes, Emitter::Server(s), src, addr, None);
                SrvOut::Connected { client_id, addr, user_data, did }
            }
            OwnedResult::Disconnected { client_id, addr, bytes } => {
                let did = bytes.map(|b| self.record(&b, Emitter::Server(s), src, addr, None));
                SrvOut::Disconnected { client_id, addr, did }
            }
        }
    }

    /// Present bytes to a server from a source address.
    pub fn server_recv(&mut self, s: usize, from: SocketAddr, bytes: &[u8]) -> SrvOut {
        let mut buf = bytes.to_vec();
        let r = own(self.servers[s].server.process_packet(from, &mut buf));
        self.convert(s, r)
    }

    pub fn server_advance(&mut self, s: usize, dt: Duration) {
        self.servers[s].server.update(dt);
    }

    pub fn server_update_client(&mut self, s: usize, client_id: u64) -> SrvOut {
        let r = own(self.servers[s].server.update_client(client_id));
        self.convert(s, r)
    }

    pub fn server_disconnect(&mut self, s: usize, client_id: u64) -> SrvOut {
        let r = own(self.servers[s].server.disconnect(client_id));
        self.convert(s, r)
    }

    /// Present bytes to a client (the transport checks the source address, the client itself does not).
    pub fn client_recv(&mut self, c: usize, bytes: &[u8]) -> Option<Vec<u8>> {
        let mut buf = bytes.to_vec();
        let p = self.clients[c].client.process_packet(&mut buf).map(|p| p.to_vec());
        if let Some(p) = &p {
            self.clients[c].payloads_got.push(p.clone());
        }
        p
    }

    /// Honest, loss-free handshake of client `c` with server `s` (clocks advance by `dt` per round).
    /// Returns true when both sides report the session.
    pub fn handshake(&mut self, s: usize, c: usize, dt: Duration, max_rounds: usize) -> bool {
        for _ in 0..max_rounds {
            self.now += dt;
            self.server_advance(s, dt);
            if let Some(did) = self.client_update(c, dt) {
                let d = self.pool[did].clone();
                if self.servers[s].is_at(d.to) {
                    self.pool[did].presented += 1;
                    let out = self.server_recv(s, d.src, &d.bytes);
                    let reply = match out {
                        SrvOut::Send { did, .. } | SrvOut::Connected { did, .. } => Some(did),
                        _ => None,
                    };
                    if let Some(r) = reply {
                        let b = self.pool[r].bytes.clone();
                        self.pool[r].presented += 1;
                        self.client_recv(c, &b);
                    }
                }
            }
            let id = self.clients[c].client_id;
            if self.clients[c].client.is_connected() && self.servers[s].server.is_client_connected(id) {
                return true;
            }
            if self.clients[c].client.is_disconnected() {
                return false;
            }
        }
        false
    }
}

pub enum OwnedResult {
    None,
    Send { to: SocketAddr, bytes: Vec<u8> },
    Payload { client_id: u64, payload: Vec<u8> },
    Connected { client_id: u64, addr: SocketAddr, user_data: Vec<u8>, bytes: Vec<u8> },
    Disconnected { client_id: u64, addr: SocketAddr, bytes: Option<Vec<u8>> },
}

pub fn own(r: ServerResult) -> OwnedResult {
    match r {
        ServerResult::None => OwnedResult::None,
        ServerResult::PacketToSend { addr, payload } => OwnedResult::Send { to: addr, bytes: payload.to_vec() },
        ServerResult::Payload { client_id, payload } => OwnedResult::Payload { client_id, payload: payload.to_vec() },
        ServerResult::ClientConnected { client_id, addr, user_data, payload } => OwnedResult::Connected { client_id, addr, user_data: user_data.to_vec(), bytes: payload.to_vec() },
        ServerResult::ClientDisconnected { client_id, addr, payload } => OwnedResult::Disconnected { client_id, addr, bytes: payload.map(|p| p.to_vec()) },
    }
}

/// Seal a packet of any kind with chosen key / protocol / sequence (harness-crafted datagrams).
pub fn seal(packet: &NPacket, protocol: u64, seq: u64, key: &[u8; 32]) -> Vec<u8> {
    let mut buf = [0u8; 1500];
    match packet.encode(&mut buf, protocol, Some((seq, key))) {
        Ok(n) => buf[..n].to_vec(),
        Err(_) => vec![],
    }
}

/// A datagram of any kind with ANY body, sealed the way the library seals (ChaCha20-Poly1305, nonce = sequence, associated data =
/// version string, protocol id, prefix byte): what a peer that holds the session key can put on the wire if it does not care about
/// the body formats.
pub fn seal_raw(kind: u8, seq: u64, body: &[u8], protocol: u64, key: &[u8; 32]) -> Vec<u8> {
    use chacha20poly1305::{AeadInPlace, ChaCha20Poly1305, Key, KeyInit, Nonce};
    let seqlen = ((64 - seq.leading_zeros() as usize + 7) / 8).max(1);
    let prefix = (kind & 0x0F) | ((seqlen as u8) << 4);
    let mut out = vec![prefix];
    out.extend_from_slice(&seq.to_le_bytes()[..seqlen]);
    let mut aad = b"NETCODE 1.02\0".to_vec();
    aad.extend_from_slice(&protocol.to_le_bytes());
    aad.push(prefix);
    let mut b = body.to_vec();
    let mut nonce = [0u8; 12];
    nonce[4..].copy_from_slice(&seq.to_le_bytes());
    let tag = ChaCha20Poly1305::new(Key::from_slice(key)).encrypt_in_place_detached(Nonce::from_slice(&nonce), &aad, &mut b).expect("sealing in memory");
    out.extend_from_slice(&b);
    out.extend_from_slice(&tag);
    out
}

#[derive(Debug, Clone, Hash, PartialEq, Eq)]
pub enum Mutation {
    None,
    FlipPrefix(u8),
    FlipSeq(usize, u8),
    FlipBody(usize, u8),
    FlipTag(usize, u8),
    Truncate(usize),
    Extend(usize),
    SetPrefix(u8),
}

/// One structural mutation of a datagram; `None` only if the datagram is empty.
pub fn mutate(src: &mut Src, bytes: &[u8]) -> (Vec<u8>, Mutation) {
    let mut b = bytes.to_vec();
    if b.is_empty() {
        return (b, Mutation::None);
    }
    let (_, seqlen, _) = parse_prefix(&b);
    let m = match src.weighted(&[3, 3, 5, 4, 4, 2, 3]) {
        0 => {
            let bit = src.below(8) as u8;
            b[0] ^= 1 << bit;
            Mutation::FlipPrefix(bit)
        }
        1 if seqlen > 0 && b.len() > seqlen => {
            let i = 1 + src.below(seqlen);
            let bit = src.below(8) as u8;
            b[i] ^= 1 << bit;
            Mutation::FlipSeq(i, bit)
        }
        2 | 1 => {
            let lo = (1 + seqlen).min(b.len() - 1);
            let hi = b.len().saturating_sub(16).max(lo + 1).min(b.len());
            let i = lo + src.below(hi - lo);
            let bit = src.below(8) as u8;
            b[i] ^= 1 << bit;
            Mutation::FlipBody(i, bit)
        }
        3 => {
            let i = b.len() - 1 - src.below(b.len().min(16));
            let bit = src.below(8) as u8;
            b[i] ^= 1 << bit;
            Mutation::FlipTag(i, bit)
        }
        4 => {
            let n = match src.below(3) {
                0 => src.pick(&[0usize, 1, 17, 18, 19]).min(b.len().saturating_sub(1)),
                1 => b.len() - 1 - src.below(b.len().min(17)),
                _ => src.below(b.len()),
            };
            b.truncate(n);
            Mutation::Truncate(n)
        }
        5 => {
            let n = 1 + src.below(40);
            let t = src.bytes(n);
            b.extend(t);
            Mutation::Extend(n)
        }
        _ => {
            let p = src.u8();
            if p == b[0] {
                b[0] ^= 0x10;
            } else {
                b[0] = p;
            }
            Mutation::SetPrefix(b[0])
        }
    };
    (b, m)
}

/// Observable state of a server (C07 snapshot equality).
#[derive(Debug, Clone, PartialEq, Eq)]
pub struct ServerSnap {
    pub ids: Vec<u64>,
    pub connected: usize,
    pub per_client: Vec<(u64, Option<SocketAddr>, Option<Vec<u8>>, bool, Option<Duration>)>,
    pub max_clients: usize,
}

pub fn snap_server(s: &NetcodeServer, known_ids: &[u64]) -> ServerSnap {
    let mut ids = s.clients_id();
    ids.sort_unstable();
    let mut all: Vec<u64> = known_ids.to_vec();
    all.extend(ids.iter().copied());
    all.sort_unstable();
    all.dedup();
    ServerSnap {
        ids,
        connected: s.connected_clients(),
        per_client: all.iter().map(|&i| (i, s.client_addr(i), s.user_data(i).map(|u| u.to_vec()), s.is_client_connected(i), s.time_since_last_received_packet(i))).collect(),
        max_clients: s.max_clients(),
    }
}

#[derive(Debug, Clone, PartialEq, Eq)]
pub struct ClientSnap {
    pub connected: bool,
    pub connecting: bool,
    pub reason: Option<renetcode::DisconnectReason>,
    pub since: Duration,
    pub server_addr: SocketAddr,
}

pub fn snap_client(c: &NetcodeClient) -> ClientSnap {
    ClientSnap { connected: c.is_connected(), connecting: c.is_connecting(), reason: c.disconnect_reason(), since: c.time_since_last_received_packet(), server_addr: c.server_addr() }
}

// ---------------------------------------------------------------------------
// Honest stepping helpers shared by C05 / C10 / C17 / C18

#[derive(Debug, Clone)]
pub struct StepOut {
    pub sent: Option<usize>,
    pub delivered: bool,
    pub server: usize,
    pub out: SrvOut,
    pub reply: Option<usize>,
    pub reply_delivered: bool,
}

impl NetWorld {
    pub fn server_by_addr(&self, a: SocketAddr) -> Option<usize> {
        self.servers.iter().position(|s| s.is_at(a))
    }

    pub fn client_by_addr(&self, a: SocketAddr) -> Vec<usize> {
        (0..self.clients.len()).filter(|&i| self.clients[i].addr == a).collect()
    }

    /// One honest client step: update, optionally deliver to the addressed server, optionally deliver the reply.
    pub fn honest_step(&mut self, c: usize, dt: Duration, lose_up: bool, lose_down: bool) -> StepOut {
        let mut so = StepOut { sent: None, delivered: false, server: 0, out: SrvOut::None, reply: None, reply_delivered: false };
        let Some(did) = self.client_update(c, dt) else { return so };
        so.sent = Some(did);
        let d = self.pool[did].clone();
        let Some(s) = self.server_by_addr(d.to) else { return so };
        so.server = s;
        if lose_up {
            return so;
        }
        so.delivered = true;
        self.pool[did].presented += 1;
        so.out = self.server_recv(s, d.src, &d.bytes);
        so.reply = match &so.out {
            SrvOut::Send { did, .. } | SrvOut::Connected { did, .. } => Some(*did),
            SrvOut::Disconnected { did, .. } => *did,
            _ => None,
        };
        if let (Some(r), false) = (so.reply, lose_down) {
            let b = self.pool[r].bytes.clone();
            self.pool[r].presented += 1;
            // the transport only hands over datagrams coming from the address the client talks to
            if self.servers[s].is_at(self.clients[c].client.server_addr()) {
                self.client_recv(c, &b);
                so.reply_delivered = true;
            }
        }
        so
    }

    /// Server tick: advance the clock, run update_client for every connected id; outputs are returned with
    /// the datagram (if any) still undelivered.
    pub fn server_tick(&mut self, s: usize, dt: Duration) -> Vec<SrvOut> {
        self.server_advance(s, dt);
        let ids = self.servers[s].server.clients_id();
        let mut outs = vec![];
        for id in ids {
            let o = self.server_update_client(s, id);
            if o != SrvOut::None {
                outs.push(o);
            }
        }
        outs
    }

    /// Deliver a server-emitted datagram to whichever live client sits at its destination address.
    pub fn deliver_to_clients(&mut self, did: usize) -> Vec<(usize, Option<Vec<u8>>)> {
        let d = self.pool[did].clone();
        let mut res = vec![];
        for c in self.client_by_addr(d.to) {
            if self.clients[c].client.server_addr() == d.src || self.servers.iter().any(|s| s.addr == d.src && s.is_at(self.clients[c].client.server_addr())) {
                self.pool[did].presented += 1;
                let p = self.client_recv(c, &d.bytes);
                res.push((c, p));
            }
        }
        res
    }
}

/// Decode a datagram with a known key without touching any endpoint (harness-side inspection).
pub fn peek<'a>(bytes: &'a mut Vec<u8>, protocol: u64, key: &[u8; 32]) -> Option<(u64, NPacket<'a>)> {
    NPacket::decode(bytes, protocol, Some(key), None).ok()
}

pub fn peek_challenge(bytes: &[u8], protocol: u64, key: &[u8; 32]) -> Option<(u64, [u8; 300])> {
    let mut b = bytes.to_vec();
    match peek(&mut b, protocol, key) {
        Some((_, NPacket::Challenge { token_sequence, token_data })) => Some((token_sequence, token_data)),
        _ => None,
    }
}

pub fn peek_response(bytes: &[u8], protocol: u64, key: &[u8; 32]) -> Option<(u64, [u8; 300])> {
    let mut b = bytes.to_vec();
    match peek(&mut b, protocol, key) {
        Some((_, NPacket::Response { token_sequence, token_data })) => Some((token_sequence, token_data)),
        _ => None,
    }
}
