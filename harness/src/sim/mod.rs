//! Shared simulators.
