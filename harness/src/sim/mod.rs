//! Shared simulators.
pub mod driver;
pub mod hostile;
pub mod net;
pub mod world;
