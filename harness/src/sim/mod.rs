//! Shared simulators.
pub mod driver;
pub mod world;
