//! Hostile renet packets: the harness's own raw writer (so inconsistent fields can be expressed),
//! field-targeted generators, and mutations of genuine packets.

use super::world::*;
use crate::engine::*;

pub struct RawW {
    pub buf: Vec<u8>,
}

impl RawW {
    pub fn new() -> Self {
        RawW { buf: vec![] }
    }
    pub fn u8(&mut self, v: u8) -> &mut Self {
        self.buf.push(v);
        self
    }
    pub fn u16(&mut self, v: u16) -> &mut Self {
        self.buf.extend_from_slice(&v.to_be_bytes());
        self
    }
    /// QUIC varint (values above 2^62-1 are clamped)
    pub fn varint(&mut self, v: u64) -> &mut Self {
        let v = v.min((1 << 62) - 1);
        if v < 64 {
            self.buf.push(v as u8);
        } else if v < 16384 {
            self.buf.extend_from_slice(&((v as u16) | 0x4000).to_be_bytes());
        } else if v < (1 << 30) {
            self.buf.extend_from_slice(&((v as u32) | 0x8000_0000).to_be_bytes());
        } else {
            self.buf.extend_from_slice(&(v | 0xC000_0000_0000_0000).to_be_bytes());
        }
        self
    }
    /// non-minimal encodings are legal varints too
    pub fn varint_wide(&mut self, v: u64, width: usize) -> &mut Self {
        match width {
            2 if v < 16384 => {
                self.buf.extend_from_slice(&((v as u16) | 0x4000).to_be_bytes());
            }
            4 if v < (1 << 30) => {
                self.buf.extend_from_slice(&((v as u32) | 0x8000_0000).to_be_bytes());
            }
            8 => {
                self.buf.extend_from_slice(&(v.min((1 << 62) - 1) | 0xC000_0000_0000_0000).to_be_bytes());
            }
            _ => {
                self.varint(v);
            }
        }
        self
    }
    pub fn bytes(&mut self, b: &[u8]) -> &mut Self {
        self.buf.extend_from_slice(b);
        self
    }
}

/// Field-boundary values: varint widths, the decoder's slice-count cap, and counts whose byte size (x 1200) is just below / at / above
/// what usize can represent (so that sums with accounted memory overflow).
pub const BIG: &[u64] = &[
    0,
    1,
    2,
    63,
    64,
    16383,
    16384,
    999_999,
    1_000_000,
    1_000_001,
    (1 << 30) - 1,
    1 << 30,
    (1 << 62) - 1,
    u64::MAX / 1200,
    u64::MAX / 1200 - 1,
    u64::MAX / 1200 + 1,
    u64::MAX / 1200 - 9,
    (u32::MAX / 1200) as u64,
    (u32::MAX / 1200) as u64 + 1,
    1 << 53,
];

pub fn boundary(src: &mut Src, around: &[u64]) -> u64 {
    match src.weighted(&[5, 5, 2]) {
        0 if !around.is_empty() => {
            let b = src.pick(around);
            match src.below(3) {
                0 => b,
                1 => b.saturating_add(1),
                _ => b.saturating_sub(1),
            }
        }
        2 => src.u64() & ((1 << 62) - 1),
        _ => src.pick(BIG),
    }
}

fn payload_len(src: &mut Src) -> usize {
    match src.weighted(&[6, 4, 2, 1]) {
        0 => 1200,
        1 => src.pick(&[0usize, 1, 1199, 1200, 1201]),
        2 => src.below(1300),
        // far beyond a slice: whatever a UDP datagram can carry (a transport may hand over more than the netcode limit)
        _ => src.pick(&[1300usize, 5000, 1301, 20_000, 65_000]),
    }
}

#[derive(Debug, Clone, Hash)]
pub enum Hostile {
    Slice { reliable: bool, seq: u64, ch: u8, mid: u64, idx: u64, n: u64, declared: u64, actual: usize, contradicts: bool },
    Small { reliable: bool, seq: u64, ch: u8, count: u16, written: usize, first_id: u64, len: u64 },
    Ack { seq: u64, end: u64, size: u64, remaining: u64, written: usize },
    Mutated { of_pid: usize, how: String },
    Raw { len: usize },
}

/// What the harness knows about the receiving side of link `d` (used to aim injections).
pub struct Aim {
    pub chans: Vec<(u8, Kind)>,
    /// (channel, message id, slices) of reliable messages partially handed over
    pub partial: Vec<(u8, u64, usize)>,
    /// (channel, next id expected by an ordered receiver / some id around the cursor)
    pub cursors: Vec<(u8, u64)>,
    pub unrel_partial: Vec<(u8, u64, usize)>,
}

pub fn aim(w: &World, d: Dir) -> Aim {
    let ds = &w.dirs[d.idx()];
    let mut a = Aim { chans: vec![], partial: vec![], cursors: vec![], unrel_partial: vec![] };
    for (id, cm) in ds.chans.iter() {
        a.chans.push((*id, cm.cfg.kind));
        if cm.cfg.kind.reliable() {
            for m in cm.msgs.iter() {
                if m.parts > 1 && m.handed_parts > 0 && m.handed_parts < m.parts && m.obtained == 0 {
                    a.partial.push((*id, m.mid, m.parts));
                }
            }
            let cur = cm.msgs.iter().find(|m| m.obtained == 0).map(|m| m.mid).unwrap_or(cm.mid_of(cm.msgs.len()));
            a.cursors.push((*id, cur));
        } else {
            for (sid, (n, _)) in cm.partial_seen.iter() {
                a.unrel_partial.push((*id, *sid, *n));
            }
        }
    }
    a
}

/// Build one hostile packet for the receiver of link `d`.
pub fn gen_hostile(src: &mut Src, w: &World, d: Dir) -> (Vec<u8>, Hostile) {
    let a = aim(w, d);
    let family = src.weighted(&[10, 5, 4, 6, 2]);
    let pick_ch = |src: &mut Src, want_reliable: Option<bool>| -> u8 {
        let cands: Vec<u8> = a.chans.iter().filter(|(_, k)| want_reliable.map(|r| k.reliable() == r).unwrap_or(true)).map(|(i, _)| *i).collect();
        if !cands.is_empty() && src.chance(246) {
            cands[src.below(cands.len())]
        } else {
            src.u8()
        }
    };
    let mut w_ = RawW::new();
    match family {
        0 => {
            // slice packets
            let reliable = src.chance(150);
            let seq = boundary(src, &[]);
            let mut ch = pick_ch(src, Some(reliable));
            let partial = if reliable { &a.partial } else { &a.unrel_partial };
            let (mid, n, idx, contradicts);
            if !partial.is_empty() && src.chance(170) {
                // aim at a message in reassembly: contradict its slice count or overshoot its index
                let (c, m, parts) = partial[src.below(partial.len())];
                ch = c;
                mid = m;
                let parts = parts as u64;
                n = match src.below(5) {
                    0 => parts,
                    1 => parts + 1,
                    2 => parts.saturating_sub(1).max(1),
                    3 => src.pick(&[1u64, 1000, 1_000_000]),
                    _ => boundary(src, &[parts]),
                };
                idx = match src.below(5) {
                    0 => src.below(parts as usize) as u64,
                    1 => parts,
                    2 => parts + 1,
                    3 => n.saturating_sub(1),
                    _ => boundary(src, &[parts, n]),
                };
                contradicts = true;
            } else {
                let cur = a.cursors.iter().find(|(c, _)| *c == ch).map(|(_, c)| *c).unwrap_or(0);
                mid = boundary(src, &[cur]);
                n = match src.below(4) {
                    0 => 1 + src.below(4) as u64,
                    1 => src.pick(&[0u64, 1, 2, 1_000_000, 1_000_001]),
                    _ => boundary(src, &[]),
                };
                idx = match src.below(4) {
                    0 => 0,
                    1 => n.saturating_sub(1),
                    2 => n,
                    _ => boundary(src, &[n]),
                };
                contradicts = false;
            }
            let actual = payload_len(src);
            let declared = if src.chance(40) { boundary(src, &[actual as u64]) } else { actual as u64 };
            w_.u8(if reliable { 2 } else { 3 }).varint(seq).u8(ch).varint(mid).varint(idx).varint(n).varint(declared);
            let mut p = vec![0u8; actual];
            fill_stream(src.u16() as u64, &mut p);
            w_.bytes(&p);
            (w_.buf, Hostile::Slice { reliable, seq, ch, mid, idx, n, declared, actual, contradicts })
        }
        1 => {
            // small-message packets
            let reliable = src.chance(150);
            let seq = boundary(src, &[]);
            let ch = pick_ch(src, Some(reliable));
            let count = match src.below(4) {
                0 => 1,
                1 => src.below(6) as u16,
                2 => src.pick(&[0u16, 1, 255, 256, 65535]),
                _ => src.u16(),
            };
            let cur = a.cursors.iter().find(|(c, _)| *c == ch).map(|(_, c)| *c).unwrap_or(0);
            w_.u8(if reliable { 0 } else { 1 }).varint(seq).u8(ch).u16(count);
            let written = (count as usize).min(1 + src.below(8));
            let mut first_id = 0;
            let mut len = 0;
            for i in 0..written {
                let id = boundary(src, &[cur]);
                if i == 0 {
                    first_id = id;
                }
                if reliable {
                    w_.varint(id);
                }
                let actual = match src.below(16) {
                    0..=4 => src.below(20),
                    5..=9 => src.pick(&[0usize, 1, 1199, 1200, 1201]),
                    10 => src.pick(&[5000usize, 1300, 30_000]),
                    _ => src.below(400),
                };
                len = if src.chance(30) { boundary(src, &[actual as u64]) } else { actual as u64 };
                w_.varint(len);
                let mut p = vec![0u8; actual];
                fill_stream(src.u16() as u64, &mut p);
                w_.bytes(&p);
                if w_.buf.len() > 1400 {
                    break;
                }
            }
            (w_.buf, Hostile::Small { reliable, seq, ch, count, written, first_id, len })
        }
        2 => {
            // ack packets: reversed / overlapping / huge / many ranges
            let seq = boundary(src, &[]);
            let sent: Vec<u64> = w.sender(d.rev()).map(|c| c.verif_sent_packets()).unwrap_or_default();
            let around: Vec<u64> = sent.iter().rev().take(3).copied().collect();
            let end = boundary(src, &around);
            let size = match src.below(3) {
                0 => src.below(4) as u64,
                1 => boundary(src, &[end]),
                _ => end,
            };
            let remaining = match src.below(4) {
                0 => 0,
                1 => src.below(5) as u64,
                2 => src.pick(&[64u64, 65, 10_000, 1 << 40]),
                _ => boundary(src, &[]),
            };
            w_.u8(4).varint(seq).varint(end).varint(size).varint(remaining);
            let written = (remaining.min(400) as usize).min(src.below(200) + 1);
            for _ in 0..written {
                let gap = match src.below(3) {
                    0 => src.below(3) as u64,
                    1 => boundary(src, &[end]),
                    _ => src.below(100) as u64,
                };
                let sz = match src.below(3) {
                    0 => 0,
                    1 => boundary(src, &[end]),
                    _ => src.below(50) as u64,
                };
                w_.varint(gap).varint(sz);
                if w_.buf.len() > 1380 {
                    break;
                }
            }
            (w_.buf, Hostile::Ack { seq, end, size, remaining, written })
        }
        3 => {
            // mutation / truncation of a genuine packet of this link
            let cands: Vec<usize> = w.packets.iter().enumerate().rev().filter(|(_, p)| p.dir == d && !p.hostile).take(12).map(|(i, _)| i).collect();
            if cands.is_empty() {
                let n = src.below(64);
                let b = src.bytes(n);
                return (b, Hostile::Raw { len: n });
            }
            let pid = cands[src.below(cands.len())];
            let mut b = w.packets[pid].bytes.clone();
            let mut how = String::new();
            for _ in 0..1 + src.below(3) {
                if b.is_empty() {
                    break;
                }
                match src.below(5) {
                    0 => {
                        let i = src.below(b.len().min(16));
                        b[i] = src.u8();
                        how.push_str(&format!("set@{i};"));
                    }
                    1 => {
                        let i = src.below(b.len());
                        b[i] ^= 1 << src.below(8);
                        how.push_str(&format!("flip@{i};"));
                    }
                    2 => {
                        let n = src.below(b.len() + 1);
                        b.truncate(n);
                        how.push_str(&format!("trunc{n};"));
                    }
                    3 => {
                        let n = src.below(40);
                        let t = src.bytes(n);
                        b.extend(t);
                        how.push_str(&format!("extend{n};"));
                    }
                    _ => {
                        // splice the head of this packet with the tail of another genuine one
                        let other = cands[src.below(cands.len())];
                        let o = &w.packets[other].bytes;
                        let cut = src.below(b.len().min(24) + 1);
                        let ocut = src.below(o.len().min(24) + 1);
                        let mut nb = b[..cut].to_vec();
                        nb.extend_from_slice(&o[ocut.min(o.len())..]);
                        b = nb;
                        how.push_str(&format!("splice{cut}/{ocut};"));
                    }
                }
            }
            b.truncate(1400);
            (b, Hostile::Mutated { of_pid: pid, how })
        }
        _ => {
            let n = match src.below(3) {
                0 => src.below(8),
                1 => src.below(64),
                _ => src.below(1400),
            };
            let mut b = vec![0u8; n];
            fill_stream(src.u32() as u64, &mut b);
            if n > 0 && src.chance(200) {
                b[0] = src.below(6) as u8;
            }
            (b, Hostile::Raw { len: n })
        }
    }
}
