//! Renet world: one RenetServer + N RenetClients, two directed lossy links per client,
//! a model of everything submitted / handed over / obtained, and the oracles that the
//! message-layer properties share.

use crate::engine::*;
use bytes::Bytes;
use renet::verif::{decode_packet, Packet, UnackedInfo};
use renet::{ChannelConfig, ChannelError, ConnectionConfig, DisconnectReason, RenetClient, RenetServer, SendType};
use std::collections::{BTreeMap, BTreeSet, HashMap};
use std::time::Duration;

pub const SLICE: usize = 1200;
pub const HEADER: usize = 16;

#[derive(Clone, Copy, Debug, PartialEq, Eq, Hash)]
pub enum Kind {
    Unreliable,
    Ordered,
    Unordered,
}

impl Kind {
    pub fn reliable(self) -> bool {
        !matches!(self, Kind::Unreliable)
    }
}

#[derive(Clone, Debug, Hash)]
pub struct Chan {
    pub id: u8,
    pub kind: Kind,
    pub max_mem: usize,
    pub resend_ms: u64,
}

#[derive(Clone, Debug, Hash)]
pub struct WorldCfg {
    pub bytes_per_tick: u64,
    /// server -> client channels
    pub s2c: Vec<Chan>,
    /// client -> server channels
    pub c2s: Vec<Chan>,
    pub n_clients: usize,
    /// which client ids the connections get (see `client_id`): 0 = 100+i, 1 = u64::MAX-i, 2 = a mix of extreme values
    pub id_scheme: u8,
}

fn chan_cfg(c: &Chan) -> ChannelConfig {
    ChannelConfig {
        channel_id: c.id,
        max_memory_usage_bytes: c.max_mem,
        send_type: match c.kind {
            Kind::Unreliable => SendType::Unreliable,
            Kind::Ordered => SendType::ReliableOrdered { resend_time: Duration::from_millis(c.resend_ms) },
            Kind::Unordered => SendType::ReliableUnordered { resend_time: Duration::from_millis(c.resend_ms) },
        },
    }
}

impl WorldCfg {
    pub fn connection_config(&self) -> ConnectionConfig {
        ConnectionConfig {
            available_bytes_per_tick: self.bytes_per_tick,
            server_channels_config: self.s2c.iter().map(chan_cfg).collect(),
            client_channels_config: self.c2s.iter().map(chan_cfg).collect(),
        }
    }
}

/// A directed link: `to_client` = server -> client `client`.
#[derive(Clone, Copy, Debug, PartialEq, Eq, Hash, PartialOrd, Ord)]
pub struct Dir {
    pub client: usize,
    pub to_client: bool,
}

impl Dir {
    pub fn rev(self) -> Dir {
        Dir { client: self.client, to_client: !self.to_client }
    }
    pub fn idx(self) -> usize {
        self.client * 2 + self.to_client as usize
    }
}

thread_local! {
    /// Client-id scheme of the case running on this thread (set by World::new; a case runs on one thread from start to end).
    static ID_SCHEME: std::cell::Cell<u8> = const { std::cell::Cell::new(0) };
}

/// Client id of the i-th connection of the case: ids are application-chosen u64 values, so extreme ones are legal.
pub fn client_id(i: usize) -> u64 {
    match ID_SCHEME.with(|c| c.get()) {
        1 => u64::MAX - i as u64,
        2 => [0u64, u64::MAX, 1, 1 << 63, u64::MAX - 1, 1 << 32, 7, (1 << 63) - 1][i % 8] ^ ((i / 8) as u64 * 0x10),
        _ => 100 + i as u64,
    }
}

#[derive(Clone, Debug)]
pub enum PInfo {
    SmallRel { ch: u8, msgs: Vec<(u64, usize)> },
    SmallUnrel { ch: u8, hashes: Vec<(u64, usize)> },
    RelSlice { ch: u8, mid: u64, idx: usize, n: usize, len: usize },
    UnrelSlice { ch: u8, sid: u64, idx: usize, n: usize, len: usize },
    Ack { ranges: Vec<std::ops::Range<u64>> },
    Undecodable,
}

pub struct PktRec {
    pub dir: Dir,
    pub bytes: Vec<u8>,
    pub seq: u64,
    pub info: PInfo,
    pub sent_at_ms: u64,
    pub flush_no: u64,
    pub handed: u32,
    /// receiver-side time of the most recent handover
    pub last_handed_ms: u64,
    /// injected by the harness (hostile), not emitted by the library
    pub hostile: bool,
}

#[derive(Clone, Debug)]
pub struct InFlight {
    pub pid: usize,
    pub due_ms: u64,
}

pub struct Msg {
    pub serial: u32,
    pub content: Bytes,
    pub hash: u64,
    /// reliable: message id assigned by the channel
    pub mid: u64,
    pub submitted_at_ms: u64,
    pub obtained: u32,
    /// number of parts (1 for small, slices otherwise)
    pub parts: usize,
    /// per part: handed over to the (connected) receiver at least once
    pub handed: Vec<bool>,
    pub handed_parts: usize,
    pub released: bool,
    /// reliable: transmission times (sender clock, ms) per part
    pub tx_ms: Vec<Vec<u64>>,
    /// reliable: the part may never be transmitted again from this time on
    pub acked_part: Vec<bool>,
    /// unreliable: pids carrying each part
    pub carriers: Vec<Vec<usize>>,
    /// unreliable: flush in which it left (or was dropped from) the queue
    pub flushed: bool,
    pub sent_in_flush: Option<u64>,
}

impl Msg {
    pub fn len(&self) -> usize {
        self.content.len()
    }
    pub fn fully_handed(&self) -> bool {
        self.handed_parts == self.parts
    }
}

pub struct ChanModel {
    pub cfg: Chan,
    /// accepted messages in submission order (serial = index)
    pub msgs: Vec<Msg>,
    pub id_base: u64,
    /// message-id jumps of the sender (long histories simulated through the id preset hook): (first serial after the jump,
    /// total offset added to the ids from that serial on)
    pub jumps: Vec<(usize, u64)>,
    /// ordered: next index to be obtained
    pub next_obtain: usize,
    pub by_hash: HashMap<u64, Vec<usize>>,
    pub obtained_total: u64,
    pub refused: u32,
    /// unreliable: sliced id -> msg index
    pub sliced: HashMap<u64, usize>,
    pub next_sid: u64,
    /// unreliable receive model: sid -> (n, last progress ms)
    pub partial_seen: BTreeMap<u64, (usize, u64)>,
    /// unreliable: credits per content hash from handed-over small packets
    pub small_credit: HashMap<u64, u32>,
    pub small_obtained: HashMap<u64, u32>,
    /// unreliable receive channel: some packet arrived when the receive budget might not have had room for it
    /// (the channel then legitimately drops the message)
    pub maybe_dropped: bool,
}

impl ChanModel {
    /// Message id of the reliable message with this serial (submission index).
    pub fn mid_of(&self, serial: usize) -> u64 {
        let off = self.jumps.iter().rev().find(|(start, _)| *start <= serial).map(|(_, o)| *o).unwrap_or(0);
        self.id_base + serial as u64 + off
    }
    /// Serial of the reliable message with this id; usize::MAX if no submitted message can have it.
    pub fn index_of(&self, mid: u64) -> usize {
        let mut end = usize::MAX;
        for &(start, off) in self.jumps.iter().rev() {
            if let Some(i) = mid.checked_sub(self.id_base.wrapping_add(off)) {
                let i = i as usize;
                if i >= start && i < end {
                    return i;
                }
            }
            end = start;
        }
        match mid.checked_sub(self.id_base) {
            Some(i) if (i as usize) < end => i as usize,
            _ => usize::MAX,
        }
    }
}

pub struct DirState {
    pub dir: Dir,
    pub chans: BTreeMap<u8, ChanModel>,
    pub order: Vec<u8>,
    pub link: Vec<InFlight>,
    /// sequences of packets handed over through this link (to its receiver)
    pub received_seqs: BTreeSet<u64>,
    pub seq_to_pid: HashMap<u64, usize>,
    pub flushes: u64,
    pub lost_data: u32,
    pub lost_ack: u32,
    pub dup_ack: u32,
    pub reordered: u32,
}

#[derive(Clone, Debug, Default)]
pub struct Oracles {
    /// C01/C02/C03 content + order oracles
    pub content: bool,
    /// channel kinds the content oracles are applied to (empty = all)
    pub content_kinds: Vec<Kind>,
    /// C02 promptness
    pub prompt: bool,
    /// C08 release / ack soundness
    pub release: bool,
    /// C09/C06 bounds and leak
    pub memory: bool,
    /// C13
    pub sizes: bool,
    /// C14
    pub budget: bool,
    /// C15
    pub timing: bool,
    /// connections excluded from content oracles (hostile victim)
    pub exclude_clients: Vec<usize>,
    /// once per case (in about half of the cases) the otherwise polite application submits a reliable message although
    /// can_send_message said no: documented to disconnect; a connection that stays up has accepted the message
    pub impolite_once: bool,
}

pub struct World {
    pub cfg: WorldCfg,
    pub server: RenetServer,
    pub clients: Vec<RenetClient>,
    pub dirs: Vec<DirState>,
    pub packets: Vec<PktRec>,
    pub now_ms: u64,
    pub or: Oracles,
    /// the application drains every channel right after every delivery
    pub prompt_drain: bool,
    pub hostile_seen: Vec<bool>,
    /// connection slots that have joined (C11 lets clients join late)
    pub active: Vec<bool>,
    /// every packet carrying this reliable message is dropped forever: (link, channel, message id)
    pub blackhole: Option<(Dir, u8, u64)>,
    /// polite refusals on reliable channels so far / the refusal at which the application insists (None: never) / whether it did
    pub refusals: u32,
    pub insist_at: Option<u32>,
    pub insisted: bool,
}

pub fn content_key(client: usize, to_client: bool, ch: u8, serial: u32) -> u64 {
    splitmix(((client as u64) << 48) ^ ((to_client as u64) << 40) ^ ((ch as u64) << 32) ^ serial as u64)
}

pub fn make_content(client: usize, to_client: bool, ch: u8, serial: u32, len: usize, mask: u32) -> Bytes {
    let mut v = vec![0u8; len];
    let key = content_key(client, to_client, ch, serial) ^ (mask as u64).rotate_left(17);
    if len >= HEADER {
        v[0] = 0xA5;
        v[1] = client as u8;
        v[2] = to_client as u8;
        v[3] = ch;
        v[4..8].copy_from_slice(&serial.to_le_bytes());
        v[8..12].copy_from_slice(&(len as u32).to_le_bytes());
        v[12..16].copy_from_slice(&mask.to_le_bytes());
        fill_stream(key, &mut v[HEADER..]);
    } else {
        fill_stream(key, &mut v);
    }
    Bytes::from(v)
}

pub fn is_mem_reason(r: &DisconnectReason) -> bool {
    matches!(
        r,
        DisconnectReason::ReceiveChannelError { error: ChannelError::ReliableChannelMaxMemoryReached, .. }
            | DisconnectReason::SendChannelError { error: ChannelError::ReliableChannelMaxMemoryReached, .. }
    )
}

impl World {
    pub fn new(cfg: WorldCfg, or: Oracles) -> Self {
        ID_SCHEME.with(|c| c.set(cfg.id_scheme));
        let cc = cfg.connection_config();
        let mut server = RenetServer::new(cc.clone());
        let mut clients = vec![];
        let mut dirs = vec![];
        for i in 0..cfg.n_clients {
            server.add_connection(client_id(i));
            let mut c = RenetClient::new(cc.clone());
            c.set_connected();
            clients.push(c);
            for to_client in [false, true] {
                let chans = if to_client { &cfg.s2c } else { &cfg.c2s };
                let mut map = BTreeMap::new();
                for ch in chans {
                    map.insert(
                        ch.id,
                        ChanModel {
                            cfg: ch.clone(),
                            msgs: vec![],
                            id_base: 0,
                            jumps: vec![],
                            next_obtain: 0,
                            by_hash: HashMap::new(),
                            obtained_total: 0,
                            refused: 0,
                            sliced: HashMap::new(),
                            next_sid: 0,
                            partial_seen: BTreeMap::new(),
                            small_credit: HashMap::new(),
                            small_obtained: HashMap::new(),
                            maybe_dropped: false,
                        },
                    );
                }
                dirs.push(DirState {
                    dir: Dir { client: i, to_client },
                    chans: map,
                    order: chans.iter().map(|c| c.id).collect(),
                    link: vec![],
                    received_seqs: BTreeSet::new(),
                    seq_to_pid: HashMap::new(),
                    flushes: 0,
                    lost_data: 0,
                    lost_ack: 0,
                    dup_ack: 0,
                    reordered: 0,
                });
            }
        }
        while server.get_event().is_some() {}
        let n = cfg.n_clients;
        // a function of the configuration, so a replay insists at the same refusal
        let h = fnv(format!("{cfg:?}").as_bytes());
        let insist_at = if or.impolite_once && h % 2 == 0 { Some(((h >> 8) % 5) as u32) } else { None };
        World { cfg, server, clients, dirs, packets: vec![], now_ms: 0, or, prompt_drain: false, hostile_seen: vec![false; n], active: vec![true; n], blackhole: None, refusals: 0, insist_at, insisted: false }
    }

    pub fn all_dirs(&self) -> Vec<Dir> {
        self.dirs.iter().map(|d| d.dir).filter(|d| self.active[d.client]).collect()
    }

    /// World in which only the first `joined` clients are connected at the start.
    pub fn new_partial(cfg: WorldCfg, or: Oracles, joined: usize) -> Self {
        let mut w = World::new(cfg, or);
        for i in joined..w.cfg.n_clients {
            w.server.remove_connection(client_id(i));
            w.active[i] = false;
        }
        while w.server.get_event().is_some() {}
        w
    }

    pub fn join(&mut self, i: usize) {
        if !self.active[i] {
            self.active[i] = true;
            self.server.add_connection(client_id(i));
            while self.server.get_event().is_some() {}
        }
    }

    /// The blackholed message and, on an ordered channel, everything queued behind it carry no liveness obligation.
    pub fn exempt(&self, d: Dir, ch: u8, m: &Msg) -> bool {
        match self.blackhole {
            Some((bd, bch, mid)) if bd == d && bch == ch => {
                let kind = self.dirs[d.idx()].chans[&ch].cfg.kind;
                m.mid == mid || (kind == Kind::Ordered && m.mid > mid)
            }
            _ => false,
        }
    }

    // ---- endpoint access -------------------------------------------------

    pub fn sender(&self, d: Dir) -> Option<&RenetClient> {
        if d.to_client {
            self.server.verif_connection(client_id(d.client))
        } else {
            self.clients.get(d.client)
        }
    }

    pub fn receiver(&self, d: Dir) -> Option<&RenetClient> {
        self.sender(d.rev())
    }

    pub fn sender_reason(&self, d: Dir) -> Option<DisconnectReason> {
        self.sender(d).and_then(|c| c.disconnect_reason())
    }

    pub fn receiver_reason(&self, d: Dir) -> Option<DisconnectReason> {
        self.receiver(d).and_then(|c| c.disconnect_reason())
    }

    pub fn conn_alive(&self, client: usize) -> bool {
        let d = Dir { client, to_client: true };
        self.sender(d).map(|c| !c.is_disconnected()).unwrap_or(false) && self.receiver(d).map(|c| !c.is_disconnected()).unwrap_or(false)
    }

    fn excluded(&self, client: usize) -> bool {
        self.or.exclude_clients.contains(&client)
    }

    /// Long history simulated with the id preset hook: the sender of a ReliableUnordered channel skips `delta` message ids (as if
    /// that many messages had been sent, obtained and acknowledged in the meantime). The unordered receiver needs no adjustment:
    /// it accepts any id at or above its cursor and remembers it in its set.
    pub fn id_jump(&mut self, d: Dir, ch: u8, delta: u64) -> bool {
        let cm = &self.dirs[d.idx()].chans[&ch];
        if cm.cfg.kind != Kind::Unordered {
            return false;
        }
        let n = cm.msgs.len();
        let next = cm.mid_of(n) + delta;
        // ids stay inside the domain of the wire format (varints carry at most 2^62 - 1), with room for the rest of the case
        if next >= (1u64 << 62) - (1u64 << 34) {
            return false;
        }
        let total = cm.jumps.last().map(|(_, o)| *o).unwrap_or(0) + delta;
        if d.to_client {
            let Some(c) = self.server.verif_connection_mut(client_id(d.client)) else { return false };
            c.verif_set_next_send_message_id(ch, next);
        } else {
            self.clients[d.client].verif_set_next_send_message_id(ch, next);
        }
        let cm = self.dirs[d.idx()].chans.get_mut(&ch).unwrap();
        if cm.jumps.last().map(|(s, _)| *s) == Some(n) {
            cm.jumps.pop();
        }
        cm.jumps.push((n, total));
        true
    }

    // ---- application operations -----------------------------------------

    /// Submit a message; `polite` checks can_send_message first. Returns whether it was accepted.
    pub fn send(&mut self, d: Dir, ch: u8, len: usize, polite: bool, mask: u32) -> Result<bool, Fail> {
        let Some(s) = self.sender(d) else { return Ok(false) };
        if s.is_disconnected() {
            return Ok(false);
        }
        let can = s.can_send_message(ch, len);
        let avail_before = s.channel_available_memory(ch);
        let kind = self.dirs[d.idx()].chans[&ch].cfg.kind;
        if polite && !can {
            self.dirs[d.idx()].chans.get_mut(&ch).unwrap().refused += 1;
            let insist = kind.reliable() && !self.insisted && self.insist_at == Some(self.refusals);
            if kind.reliable() {
                self.refusals += 1;
            }
            // an unreliable channel just drops what does not fit (documented), so there every second refused message is submitted
            // all the same: nothing may change, in particular not the channel's accounting
            let shrug = kind == Kind::Unreliable && self.dirs[d.idx()].chans[&ch].refused % 2 == 0;
            if !insist && !shrug {
                return Ok(false);
            }
            if insist {
                self.insisted = true;
            }
        }
        let serial = self.dirs[d.idx()].chans[&ch].msgs.len() as u32;
        let content = make_content(d.client, d.to_client, ch, serial, len, mask);
        if d.to_client {
            self.server.send_message(client_id(d.client), ch, content.clone());
        } else {
            self.clients[d.client].send_message(ch, content.clone());
        }
        if !can {
            // impolite over-budget send: unreliable drops; reliable is documented to disconnect - a connection that stays up has
            // taken the message without a word, so it counts as submitted like any other
            if kind.reliable() && !self.sender(d).map(|s| s.is_disconnected()).unwrap_or(true) {
                self.register(d, ch, content, kind);
                return Ok(true);
            }
            if kind == Kind::Unreliable {
                let s = self.sender(d).unwrap();
                if s.is_disconnected() {
                    return Err(Fail::new("unreliable_send_disconnected", format!("an unreliable message of {len} bytes beyond the channel budget disconnected the sender: {:?}", s.disconnect_reason())));
                }
                if self.or.memory && s.channel_available_memory(ch) != avail_before {
                    return Err(Fail::new("send_accounting", format!("an unreliable message of {len} bytes that was dropped for lack of budget changed the channel's available memory from {avail_before} to {}", s.channel_available_memory(ch))));
                }
            }
            return Ok(false);
        }
        let s = self.sender(d).unwrap();
        if s.is_disconnected() {
            return Err(Fail::new("send_refused", format!("send of {len} bytes allowed by can_send_message disconnected the sender: {:?}", s.disconnect_reason())));
        }
        let avail_after = s.channel_available_memory(ch);
        if self.or.memory && avail_before.wrapping_sub(avail_after) != len {
            return Err(Fail::new("send_accounting", format!("accepted message of {len} bytes changed available memory from {avail_before} to {avail_after}")));
        }
        self.register(d, ch, content, kind);
        Ok(true)
    }

    pub fn register(&mut self, d: Dir, ch: u8, content: Bytes, kind: Kind) {
        let now = self.now_ms;
        let m = self.dirs[d.idx()].chans.get_mut(&ch).unwrap();
        let serial = m.msgs.len() as u32;
        let len = content.len();
        let parts = if len > SLICE { len.div_ceil(SLICE) } else { 1 };
        let hash = fnv(&content);
        m.by_hash.entry(hash).or_default().push(serial as usize);
        let mid = if kind.reliable() { m.mid_of(serial as usize) } else { 0 };
        m.msgs.push(Msg {
            serial,
            content,
            hash,
            mid,
            submitted_at_ms: now,
            obtained: 0,
            parts,
            handed: vec![false; parts],
            handed_parts: 0,
            released: false,
            tx_ms: vec![vec![]; parts],
            acked_part: vec![false; parts],
            carriers: vec![vec![]; parts],
            flushed: false,
            sent_in_flush: None,
        });
    }

    /// Receive up to `k` messages on the receiver side of `d`, channel `ch`; oracle on each.
    pub fn recv(&mut self, d: Dir, ch: u8, k: usize) -> Result<usize, Fail> {
        let mut got = 0;
        for _ in 0..k {
            let m = if d.to_client {
                self.clients[d.client].receive_message(ch)
            } else {
                self.server.receive_message(client_id(d.client), ch)
            };
            let Some(m) = m else { break };
            got += 1;
            let kind = self.dirs[d.idx()].chans[&ch].cfg.kind;
            if self.or.content && !self.excluded(d.client) && (self.or.content_kinds.is_empty() || self.or.content_kinds.contains(&kind)) {
                self.check_obtained(d, ch, &m)?;
            } else {
                self.note_obtained_unchecked(d, ch, &m);
            }
        }
        Ok(got)
    }

    pub fn drain_all(&mut self, d: Dir) -> Result<usize, Fail> {
        let mut total = 0;
        let chans: Vec<u8> = self.dirs[d.idx()].order.clone();
        for ch in chans {
            total += self.recv(d, ch, usize::MAX)?;
        }
        Ok(total)
    }

    fn note_obtained_unchecked(&mut self, d: Dir, ch: u8, m: &Bytes) {
        let cm = self.dirs[d.idx()].chans.get_mut(&ch).unwrap();
        cm.obtained_total += 1;
        let h = fnv(m);
        if let Some(c) = cm.by_hash.get(&h) {
            if let Some(&i) = c.iter().find(|&&i| cm.msgs[i].obtained == 0) {
                cm.msgs[i].obtained += 1;
                if cm.cfg.kind == Kind::Ordered {
                    cm.next_obtain = cm.next_obtain.max(i + 1);
                }
            }
        }
    }

    fn check_obtained(&mut self, d: Dir, ch: u8, m: &Bytes) -> Outcome {
        let ds = &mut self.dirs[d.idx()];
        let cm = ds.chans.get_mut(&ch).unwrap();
        cm.obtained_total += 1;
        let h = fnv(m);
        let who = format!("client {} {} channel {}", d.client, if d.to_client { "s2c" } else { "c2s" }, ch);
        match cm.cfg.kind {
            Kind::Ordered => {
                let i = cm.next_obtain;
                let Some(exp) = cm.msgs.get(i) else {
                    return Err(Fail::new("ordered_prefix", format!("{who}: obtained a message ({} bytes) although all {} submitted ones were already obtained", m.len(), cm.msgs.len())));
                };
                if exp.content != *m {
                    let what = describe_mismatch(cm, m, h);
                    return Err(Fail::new("ordered_prefix", format!("{who}: message #{i} obtained differs from message #{i} submitted ({} bytes expected, {} bytes got): {what}", exp.len(), m.len())));
                }
                if !exp.fully_handed() {
                    return Err(Fail::new("obtained_before_delivery", format!("{who}: message #{i} was obtained although not all packets carrying it were handed over")));
                }
                cm.msgs[i].obtained += 1;
                cm.next_obtain += 1;
            }
            Kind::Unordered => {
                let cand = cm.by_hash.get(&h).cloned().unwrap_or_default();
                let mut hit = None;
                let mut undelivered = false;
                for i in cand.iter().copied() {
                    if cm.msgs[i].content == *m {
                        if cm.msgs[i].obtained == 0 && cm.msgs[i].fully_handed() {
                            hit = Some(i);
                            break;
                        } else if cm.msgs[i].obtained == 0 {
                            undelivered = true;
                        } else if hit.is_none() {
                            hit = Some(usize::MAX);
                        }
                    }
                }
                if undelivered && matches!(hit, None | Some(usize::MAX)) {
                    return Err(Fail::new("obtained_before_delivery", format!("{who}: a message ({} bytes) was obtained more often than packets carrying it completely were handed over", m.len())));
                }
                match hit {
                    Some(usize::MAX) => {
                        return Err(Fail::new("unordered_duplicate", format!("{who}: a message ({} bytes) was obtained more often than it was submitted", m.len())));
                    }
                    Some(i) => cm.msgs[i].obtained += 1,
                    None => {
                        let what = describe_mismatch(cm, m, h);
                        return Err(Fail::new("unordered_fabricated", format!("{who}: obtained a message ({} bytes) that was never submitted on this channel: {what}", m.len())));
                    }
                }
            }
            Kind::Unreliable => {
                let cand = cm.by_hash.get(&h).cloned().unwrap_or_default();
                let idx = cand.iter().copied().find(|&i| cm.msgs[i].content == *m);
                let Some(first) = idx else {
                    let what = describe_mismatch(cm, m, h);
                    return Err(Fail::new("unreliable_fabricated", format!("{who}: obtained a message ({} bytes) that was never submitted on this channel: {what}", m.len())));
                };
                if m.len() > SLICE {
                    // unique content: bounded by the least-delivered slice
                    let msg = &mut cm.msgs[first];
                    msg.obtained += 1;
                    let packets = &self.packets;
                    let mut bound = u32::MAX;
                    for part in msg.carriers.iter() {
                        let c: u32 = part.iter().map(|&pid| packets[pid].handed).sum();
                        bound = bound.min(c);
                    }
                    if msg.carriers.iter().any(|p| p.is_empty()) {
                        bound = 0;
                    }
                    if msg.obtained > bound {
                        return Err(Fail::new(
                            "unreliable_count",
                            format!("{who}: sliced message #{} ({} bytes, {} slices) obtained {} times but its least-delivered slice was handed over {} times", msg.serial, msg.len(), msg.parts, msg.obtained, bound),
                        ));
                    }
                } else {
                    let o = cm.small_obtained.entry(h).or_insert(0);
                    *o += 1;
                    let credit = cm.small_credit.get(&h).copied().unwrap_or(0);
                    cm.msgs[first].obtained += 1;
                    if *o > credit {
                        return Err(Fail::new(
                            "unreliable_count",
                            format!("{who}: small message ({} bytes) obtained {} times but packets carrying it were handed over {} times", m.len(), *o, credit),
                        ));
                    }
                }
            }
        }
        Ok(())
    }

    // ---- time --------------------------------------------------------------

    pub fn advance(&mut self, dt_ms: u64) {
        self.now_ms += dt_ms;
        let dt = Duration::from_millis(dt_ms);
        self.server.update(dt);
        for c in self.clients.iter_mut() {
            c.update(dt);
        }
    }

    // ---- network -------------------------------------------------------------

    /// Sender's get_packets_to_send; every packet is decoded and recorded. Returns pids.
    pub fn flush(&mut self, d: Dir) -> Result<Vec<usize>, Fail> {
        let pre_unacked = if self.or.timing || self.or.budget { self.unacked_snapshot(d) } else { BTreeMap::new() };
        let was_disconnected = self.sender(d).map(|c| c.is_disconnected()).unwrap_or(true);
        let out: Vec<Vec<u8>> = if d.to_client {
            self.server.get_packets_to_send(client_id(d.client)).unwrap_or_default()
        } else {
            self.clients[d.client].get_packets_to_send()
        };
        if was_disconnected {
            if !out.is_empty() {
                return Err(Fail::new("disconnected_emits", "a disconnected connection emitted packets"));
            }
            return Ok(vec![]);
        }
        let flush_no = self.dirs[d.idx()].flushes;
        self.dirs[d.idx()].flushes += 1;
        let mut pids = vec![];
        for bytes in out {
            if self.or.sizes && bytes.len() > 1300 {
                return Err(Fail::new("renet_packet_size", format!("get_packets_to_send returned a packet of {} bytes (limit 1300)", bytes.len())));
            }
            let (seq, info) = match decode_packet(&bytes) {
                Ok(p) => (p.sequence(), describe(&p)),
                Err(_) => (u64::MAX, PInfo::Undecodable),
            };
            if matches!(info, PInfo::Undecodable) {
                return Err(Fail::new("emitted_undecodable", "the library emitted a packet its own decoder rejects"));
            }
            let pid = self.packets.len();
            self.packets.push(PktRec { dir: d, bytes, seq, info, sent_at_ms: self.now_ms, flush_no, handed: 0, last_handed_ms: 0, hostile: false });
            self.dirs[d.idx()].seq_to_pid.insert(seq, pid);
            pids.push(pid);
        }
        if let Some(r) = self.sender_reason(d) {
            if self.or.sizes {
                if let DisconnectReason::PacketSerialization(e) = r {
                    return Err(Fail::new("serialization_failed", format!("get_packets_to_send failed to serialise a packet: {e:?}")));
                }
            }
        }
        self.account_flush(d, &pids, flush_no, &pre_unacked)?;
        if self.or.memory {
            if let Some(snd) = self.sender(d) {
                for (id, cm) in self.dirs[d.idx()].chans.iter() {
                    if cm.cfg.kind == Kind::Unreliable {
                        let avail = snd.channel_available_memory(*id);
                        if avail != cm.cfg.max_mem {
                            return Err(Fail::new("unreliable_send_not_returned", format!("unreliable send channel {id} offers {avail} of {} bytes right after a flush", cm.cfg.max_mem)));
                        }
                    }
                }
            }
        }
        Ok(pids)
    }

    fn unacked_snapshot(&self, d: Dir) -> BTreeMap<u8, Vec<UnackedInfo>> {
        let mut out = BTreeMap::new();
        if let Some(s) = self.sender(d) {
            for (id, cm) in self.dirs[d.idx()].chans.iter() {
                if cm.cfg.kind.reliable() {
                    if let Some(u) = s.verif_unacked(*id) {
                        out.insert(*id, u);
                    }
                }
            }
        }
        out
    }

    /// Map emitted packets to the messages they carry; C03/C08/C14/C15 bookkeeping and oracles.
    fn account_flush(&mut self, d: Dir, pids: &[usize], flush_no: u64, _pre_unacked: &BTreeMap<u8, Vec<UnackedInfo>>) -> Outcome {
        let now = self.now_ms;
        let budget = self.cfg.bytes_per_tick;
        let check = !self.excluded(d.client);
        let mut bytes_by_chan: BTreeMap<u8, u64> = BTreeMap::new();
        // units transmitted in this flush: (ch, mid, part)
        let mut sent_units: BTreeSet<(u8, u64, usize)> = BTreeSet::new();
        // acks soundness
        for &pid in pids {
            let info = self.packets[pid].info.clone();
            match info {
                PInfo::Ack { ranges } => {
                    if self.or.release && check && !self.hostile_seen[d.client] {
                        // this endpoint acknowledges sequences of the reverse link
                        let rec = &self.dirs[d.rev().idx()].received_seqs;
                        let mut count = 0u64;
                        for r in ranges.iter() {
                            count += r.end - r.start;
                            if count > 2_000_000 {
                                return Err(Fail::new("ack_unreceived", "an ack packet acknowledges millions of sequences"));
                            }
                            for s in r.clone() {
                                if !rec.contains(&s) {
                                    return Err(Fail::new(
                                        "ack_unreceived",
                                        format!("endpoint acknowledged packet sequence {s} which was never handed to it (ack ranges {:?})", &ranges[..ranges.len().min(6)]),
                                    ));
                                }
                            }
                        }
                    }
                }
                PInfo::SmallRel { ch, msgs } => {
                    let ds = &mut self.dirs[d.idx()];
                    let Some(cm) = ds.chans.get_mut(&ch) else {
                        return Err(Fail::new("emitted_unknown_channel", format!("packet for unconfigured channel {ch}")));
                    };
                    for (mid, len) in msgs {
                        *bytes_by_chan.entry(ch).or_insert(0) += len as u64;
                        let i = cm.index_of(mid);
                        let Some(m) = cm.msgs.get_mut(i) else {
                            if check {
                                return Err(Fail::new("emitted_unknown_message", format!("packet carries reliable message id {mid} that was never submitted")));
                            }
                            continue;
                        };
                        if check && m.len() != len {
                            return Err(Fail::new("emitted_wrong_message", format!("small packet carries message id {mid} with {len} bytes, submitted {} bytes", m.len())));
                        }
                        // (a message a little above one slice that travels whole is carried, in all its parts, by this packet: where the
                        // library draws the line between whole and sliced is not part of any statement)
                        for part in 0..m.parts {
                            m.tx_ms[part].push(now);
                            m.carriers[part].push(pid);
                            sent_units.insert((ch, mid, part));
                        }
                    }
                }
                PInfo::RelSlice { ch, mid, idx, n, len } => {
                    *bytes_by_chan.entry(ch).or_insert(0) += len as u64;
                    let ds = &mut self.dirs[d.idx()];
                    let Some(cm) = ds.chans.get_mut(&ch) else {
                        return Err(Fail::new("emitted_unknown_channel", format!("packet for unconfigured channel {ch}")));
                    };
                    let i = cm.index_of(mid);
                    let Some(m) = cm.msgs.get_mut(i) else {
                        if check {
                            return Err(Fail::new("emitted_unknown_message", format!("slice of reliable message id {mid} that was never submitted")));
                        }
                        continue;
                    };
                    if check && (m.parts != n || idx >= n) {
                        return Err(Fail::new("emitted_wrong_slice", format!("slice {idx}/{n} of message id {mid}, which has {} slices", m.parts)));
                    }
                    if idx < m.parts {
                        m.tx_ms[idx].push(now);
                        m.carriers[idx].push(pid);
                        sent_units.insert((ch, mid, idx));
                    }
                }
                PInfo::SmallUnrel { ch, hashes } => {
                    let ds = &mut self.dirs[d.idx()];
                    let Some(cm) = ds.chans.get_mut(&ch) else {
                        return Err(Fail::new("emitted_unknown_channel", format!("packet for unconfigured channel {ch}")));
                    };
                    for (h, len) in hashes {
                        *bytes_by_chan.entry(ch).or_insert(0) += len as u64;
                        // attribute to the oldest unflushed message with this content
                        if let Some(c) = cm.by_hash.get(&h) {
                            if let Some(&i) = c.iter().find(|&&i| !cm.msgs[i].flushed) {
                                cm.msgs[i].flushed = true;
                                cm.msgs[i].sent_in_flush = Some(flush_no);
                                for part in 0..cm.msgs[i].parts {
                                    cm.msgs[i].carriers[part].push(pid);
                                }
                                continue;
                            }
                        }
                        if check {
                            return Err(Fail::new("emitted_unknown_message", format!("unreliable packet carries a {len}-byte message that is not in the send queue")));
                        }
                    }
                }
                PInfo::UnrelSlice { ch, sid, idx, n, len } => {
                    *bytes_by_chan.entry(ch).or_insert(0) += len as u64;
                    let bytes = self.packets[pid].bytes.clone();
                    let ds = &mut self.dirs[d.idx()];
                    let Some(cm) = ds.chans.get_mut(&ch) else {
                        return Err(Fail::new("emitted_unknown_channel", format!("packet for unconfigured channel {ch}")));
                    };
                    if idx == 0 {
                        // the first slice identifies the message: oldest unflushed sliced message starting with these bytes
                        if let Ok(Packet::UnreliableSlice { slice, .. }) = decode_packet(&bytes) {
                            let found = cm.msgs.iter().position(|m| !m.flushed && m.parts == n && m.content.len() >= slice.payload.len() && m.content[..slice.payload.len()] == slice.payload[..]);
                            if let Some(serial) = found {
                                cm.sliced.insert(sid, serial);
                                cm.msgs[serial].flushed = true;
                                cm.msgs[serial].sent_in_flush = Some(flush_no);
                            }
                        }
                    }
                    match cm.sliced.get(&sid).copied() {
                        Some(i) if idx < cm.msgs[i].parts => cm.msgs[i].carriers[idx].push(pid),
                        _ => {
                            if check {
                                return Err(Fail::new("emitted_unknown_message", format!("unreliable slice {idx}/{n} of sliced id {sid} does not belong to a submitted message")));
                            }
                        }
                    }
                }
                PInfo::Undecodable => {}
            }
        }

        // unreliable: whatever was queued and did not leave in this flush is dropped for good
        {
            let ds = &mut self.dirs[d.idx()];
            for cm in ds.chans.values_mut() {
                if cm.cfg.kind == Kind::Unreliable {
                    for m in cm.msgs.iter_mut() {
                        if !m.flushed {
                            m.flushed = true; // dropped (budget) - never sent later
                        } else if let Some(f) = m.sent_in_flush {
                            if self.or.budget && check && f != flush_no && m.carriers.iter().flatten().any(|&p| self.packets[p].flush_no == flush_no) {
                                return Err(Fail::new("unreliable_late", format!("unreliable message #{} left in flush {f} appears again in flush {flush_no}", m.serial)));
                            }
                        }
                    }
                }
            }
        }

        if self.or.budget && check {
            let total: u64 = bytes_by_chan.values().sum();
            if total > budget {
                return Err(Fail::new("budget_exceeded", format!("one get_packets_to_send call carried {total} message payload bytes, available_bytes_per_tick is {budget}")));
            }
            // priority / maximality per channel in configuration order
            let order = self.dirs[d.idx()].order.clone();
            let mut remaining = budget;
            for ch in order {
                let used = bytes_by_chan.get(&ch).copied().unwrap_or(0);
                remaining -= used.min(remaining);
                let cm = &self.dirs[d.idx()].chans[&ch];
                match cm.cfg.kind {
                    Kind::Unreliable => {
                        // every message queued before this flush either left now or is gone: one dropped with len <= remaining is a violation
                        for m in cm.msgs.iter() {
                            if m.sent_in_flush.is_none() && m.carriers.iter().all(|c| c.is_empty()) && !m.released {
                                // dropped; only judge those dropped in this very flush
                            }
                        }
                        let dropped: Vec<&Msg> = cm.msgs.iter().filter(|m| m.sent_in_flush.is_none() && !m.released).collect();
                        for m in dropped {
                            if (m.len() as u64) <= remaining {
                                return Err(Fail::new(
                                    "budget_unreliable_dropped",
                                    format!("unreliable message #{} of {} bytes on channel {ch} was dropped although {remaining} bytes of the tick budget were left after its channel", m.serial, m.len()),
                                ));
                            }
                        }
                    }
                    _ => {
                        let resend = cm.cfg.resend_ms;
                        // 'unacknowledged' is decided by the model (an ack packet covering a packet that carried the unit and
                        // was sent < 3 s earlier has been processed by the sender), not by asking the sender
                        {
                            for m in cm.msgs.iter() {
                                for part in 0..m.parts {
                                    if m.acked_part[part] {
                                        continue;
                                    }
                                    if sent_units.contains(&(ch, m.mid, part)) {
                                        continue;
                                    }
                                    // eligible = never sent, or last sent at least resend_time ago
                                    let hist = &m.tx_ms[part];
                                    let eligible = match hist.last() {
                                        None => true,
                                        Some(&t) => now - t >= resend,
                                    };
                                    if !eligible {
                                        continue;
                                    }
                                    let need = if m.parts > 1 { SLICE as u64 } else { m.len() as u64 };
                                    if need <= remaining {
                                        return Err(Fail::new(
                                            "budget_starved",
                                            format!(
                                                "channel {ch}: eligible {} of message id {} ({} bytes needed) was not sent although {remaining} bytes of the tick budget were left after this channel",
                                                if m.parts > 1 { format!("slice {part}") } else { "small message".into() },
                                                m.mid,
                                                need
                                            ),
                                        ));
                                    }
                                }
                            }
                        }
                    }
                }
            }
        }
        // mark unreliable messages judged above so they are not re-judged in later flushes
        {
            let ds = &mut self.dirs[d.idx()];
            for cm in ds.chans.values_mut() {
                if cm.cfg.kind == Kind::Unreliable {
                    for m in cm.msgs.iter_mut() {
                        if m.flushed {
                            m.released = true;
                        }
                    }
                }
            }
        }

        if self.or.timing && check {
            // (a) no unit twice within resend_time; (b) every due unacked unit is in this flush (budget permitting)
            let ds = &self.dirs[d.idx()];
            for &(ch, mid, part) in sent_units.iter() {
                let cm = &ds.chans[&ch];
                let i = cm.index_of(mid);
                let m = &cm.msgs[i];
                let h = &m.tx_ms[part];
                if h.len() >= 2 {
                    let prev = h[h.len() - 2];
                    if now - prev < cm.cfg.resend_ms {
                        return Err(Fail::new(
                            "resend_early",
                            format!("channel {ch} message id {mid} part {part} transmitted at {prev} ms and again at {now} ms, resend_time is {} ms", cm.cfg.resend_ms),
                        ));
                    }
                }
                if m.acked_part[part] {
                    return Err(Fail::new(
                        "resend_after_ack",
                        format!("channel {ch} message id {mid} part {part} transmitted at {now} ms after an acknowledgement for a packet carrying it had been processed"),
                    ));
                }
            }
            // budget left when the flush ended: a due unit that still fits into it was allowed by the budget at every point of the flush
            let left_at_end = budget.saturating_sub(bytes_by_chan.values().sum::<u64>());
            {
                for (ch, cm) in ds.chans.iter() {
                    if !cm.cfg.kind.reliable() {
                        continue;
                    }
                    for m in cm.msgs.iter() {
                        for part in 0..m.parts {
                            // unacknowledged by the model: no ack covering a packet that carried it was processed in time
                            if m.acked_part[part] {
                                continue;
                            }
                            if sent_units.contains(&(*ch, m.mid, part)) {
                                continue;
                            }
                            let due = match m.tx_ms[part].last() {
                                None => true,
                                Some(&t) => now - t >= cm.cfg.resend_ms,
                            };
                            let need = if m.parts > 1 { SLICE as u64 } else { m.len() as u64 };
                            if due && need <= left_at_end {
                                return Err(Fail::new(
                                    "resend_late",
                                    format!(
                                        "channel {ch} message id {} part {part} is unacknowledged, last sent {:?} ms, now {now} ms, resend_time {} ms, but it is not in this flush, which ended with {left_at_end} bytes of its budget unused ({need} needed)",
                                        m.mid,
                                        m.tx_ms[part].last(),
                                        cm.cfg.resend_ms
                                    ),
                                ));
                            }
                        }
                    }
                }
            }
        }
        Ok(())
    }

    /// Hand one recorded packet to the receiver of its link.
    pub fn handover(&mut self, pid: usize) -> Outcome {
        let d = self.packets[pid].dir;
        let connected = self.receiver(d).map(|c| !c.is_disconnected()).unwrap_or(false);
        let bytes = self.packets[pid].bytes.clone();
        let sender_time_ok = true;
        let _ = sender_time_ok;
        // an unreliable packet arriving when the receive budget may be short is legitimately dropped
        let need = match &self.packets[pid].info {
            PInfo::UnrelSlice { ch, n, .. } => Some((*ch, n * SLICE)),
            PInfo::SmallUnrel { ch, hashes } => Some((*ch, hashes.iter().map(|h| h.1).sum::<usize>())),
            _ => None,
        };
        if let Some((ch, need)) = need {
            if let Some((used, max)) = self.receiver(d).and_then(|r| r.verif_receive_memory(ch)) {
                if used + need > max {
                    if let Some(cm) = self.dirs[d.idx()].chans.get_mut(&ch) {
                        cm.maybe_dropped = true;
                    }
                }
            }
        }
        if d.to_client {
            self.clients[d.client].process_packet(&bytes);
        } else {
            let _ = self.server.process_packet_from(&bytes, client_id(d.client));
        }
        if !connected {
            return Ok(());
        }
        self.packets[pid].handed += 1;
        self.packets[pid].last_handed_ms = self.now_ms;
        let seq = self.packets[pid].seq;
        let info = self.packets[pid].info.clone();
        let now = self.now_ms;
        if !matches!(info, PInfo::Undecodable) {
            self.dirs[d.idx()].received_seqs.insert(seq);
        }
        match info {
            PInfo::SmallRel { ch, msgs } => {
                if let Some(cm) = self.dirs[d.idx()].chans.get_mut(&ch) {
                    for (mid, _) in msgs {
                        let i = cm.index_of(mid);
                        if let Some(m) = cm.msgs.get_mut(i) {
                            if !m.handed[0] {
                                m.handed[0] = true;
                                m.handed_parts += 1;
                            }
                        }
                    }
                }
            }
            PInfo::RelSlice { ch, mid, idx, .. } => {
                if let Some(cm) = self.dirs[d.idx()].chans.get_mut(&ch) {
                    let i = cm.index_of(mid);
                    if let Some(m) = cm.msgs.get_mut(i) {
                        if idx < m.parts && !m.handed[idx] {
                            m.handed[idx] = true;
                            m.handed_parts += 1;
                        }
                    }
                }
            }
            PInfo::SmallUnrel { ch, hashes } => {
                if let Some(cm) = self.dirs[d.idx()].chans.get_mut(&ch) {
                    for (h, _) in hashes {
                        *cm.small_credit.entry(h).or_insert(0) += 1;
                    }
                }
            }
            PInfo::UnrelSlice { ch, sid, n, .. } => {
                if let Some(cm) = self.dirs[d.idx()].chans.get_mut(&ch) {
                    cm.partial_seen.insert(sid, (n, now));
                }
            }
            PInfo::Ack { ranges } => {
                // the receiver of this link (= sender of the reverse link) processed an ack:
                // every unit carried by an acknowledged packet sent < 3 s ago must never be sent again
                let rd = d.rev();
                let mut acked_pids = vec![];
                {
                    let rds = &self.dirs[rd.idx()];
                    let mut count = 0u64;
                    'outer: for r in ranges.iter() {
                        // iterate the smaller of range / known sequences
                        for (&s, &p) in rds.seq_to_pid.iter() {
                            if r.contains(&s) {
                                acked_pids.push(p);
                            }
                            count += 1;
                            if count > 400_000 {
                                break 'outer;
                            }
                        }
                    }
                }
                for p in acked_pids {
                    let rec = &self.packets[p];
                    if now - rec.sent_at_ms >= 3000 {
                        continue;
                    }
                    match rec.info.clone() {
                        PInfo::SmallRel { ch, msgs } => {
                            if let Some(cm) = self.dirs[rd.idx()].chans.get_mut(&ch) {
                                for (mid, _) in msgs {
                                    let i = cm.index_of(mid);
                                    if let Some(m) = cm.msgs.get_mut(i) {
                                        m.acked_part[0] = true;
                                    }
                                }
                            }
                        }
                        PInfo::RelSlice { ch, mid, idx, .. } => {
                            if let Some(cm) = self.dirs[rd.idx()].chans.get_mut(&ch) {
                                let i = cm.index_of(mid);
                                if let Some(m) = cm.msgs.get_mut(i) {
                                    if idx < m.parts {
                                        m.acked_part[idx] = true;
                                    }
                                }
                            }
                        }
                        _ => {}
                    }
                }
            }
            PInfo::Undecodable => {}
        }
        Ok(())
    }

    /// Deliver the due packets of a link in the given order of positions.
    pub fn deliver_due(&mut self, d: Dir, permute: Option<&mut Src>) -> Result<usize, Fail> {
        let now = self.now_ms;
        let link = std::mem::take(&mut self.dirs[d.idx()].link);
        let (mut due, rest): (Vec<InFlight>, Vec<InFlight>) = link.into_iter().partition(|f| f.due_ms <= now);
        self.dirs[d.idx()].link = rest;
        if let Some(src) = permute {
            for i in (1..due.len()).rev() {
                let j = src.below(i + 1);
                // below() == 0 keeps... make 0 the identity: swap with i - j
                due.swap(i, i - j.min(i));
            }
        }
        let n = due.len();
        let mut last_seq: Option<u64> = None;
        for f in due {
            let seq = self.packets[f.pid].seq;
            if let Some(l) = last_seq {
                if seq < l {
                    self.dirs[d.idx()].reordered += 1;
                }
            }
            last_seq = Some(last_seq.map(|l| l.max(seq)).unwrap_or(seq));
            self.handover(f.pid)?;
        }
        if self.prompt_drain && n > 0 {
            self.drain_all(d)?;
        }
        Ok(n)
    }

    pub fn enqueue(&mut self, pid: usize, delay_ms: u64) {
        let d = self.packets[pid].dir;
        if let Some((bd, bch, mid)) = self.blackhole {
            if bd == d {
                let hit = match &self.packets[pid].info {
                    PInfo::SmallRel { ch, msgs } => *ch == bch && msgs.iter().any(|(i, _)| *i == mid),
                    PInfo::RelSlice { ch, mid: m, .. } => *ch == bch && *m == mid,
                    _ => false,
                };
                if hit {
                    return;
                }
            }
        }
        let due = self.now_ms + delay_ms;
        self.dirs[d.idx()].link.push(InFlight { pid, due_ms: due });
    }

    // ---- continuous invariants ---------------------------------------------

    pub fn step_check(&mut self) -> Outcome {
        if self.or.memory {
            self.check_memory()?;
        }
        if self.or.release {
            self.check_release()?;
        }
        Ok(())
    }

    fn check_memory(&self) -> Outcome {
        for ds in self.dirs.iter() {
            let d = ds.dir;
            let (Some(s), Some(r)) = (self.sender(d), self.receiver(d)) else { continue };
            for (id, cm) in ds.chans.iter() {
                if let Some((used, max)) = s.verif_send_memory(*id) {
                    if used > max {
                        return Err(Fail::new("send_memory_bound", format!("send channel {id}: accounted {used} bytes, maximum {max}")));
                    }
                    if cm.cfg.kind.reliable() && !self.excluded(d.client) {
                        if let Some(un) = s.verif_unacked(*id) {
                            let sum: usize = un.iter().map(|u| u.len).sum();
                            if sum != used {
                                return Err(Fail::new("send_memory_exact", format!("send channel {id}: accounted {used} bytes but unacknowledged messages total {sum}")));
                            }
                        }
                    }
                }
                if let Some((used, max)) = r.verif_receive_memory(*id) {
                    if used > max {
                        return Err(Fail::new("receive_memory_bound", format!("receive channel {id}: accounted {used} bytes, maximum {max}")));
                    }
                    // leak bound on reliable channels: only messages some part of which was handed over and
                    // that were not yet obtained can be accounted (sliced ones rounded up to whole slices)
                    if cm.cfg.kind.reliable() && !self.excluded(d.client) && !self.hostile_seen[d.client] {
                        let mut bound = 0usize;
                        for m in cm.msgs.iter() {
                            if m.obtained == 0 && m.handed_parts > 0 {
                                bound += if m.parts > 1 { m.parts * SLICE } else { m.len() };
                            }
                        }
                        if used > bound {
                            return Err(Fail::new(
                                "receive_leak",
                                format!(
                                    "receive channel {id} ({:?}) of client {} {}: {used} bytes accounted but the messages handed over and not yet obtained can account for at most {bound}",
                                    cm.cfg.kind,
                                    d.client,
                                    if d.to_client { "s2c" } else { "c2s" }
                                ),
                            )
                            .sig(format!("receive_leak:{:?}", cm.cfg.kind)));
                        }
                    }
                }
            }
        }
        Ok(())
    }

    /// C08: a message no longer in the sender's unacknowledged set had every part handed over.
    fn check_release(&mut self) -> Outcome {
        for di in 0..self.dirs.len() {
            let d = self.dirs[di].dir;
            if self.excluded(d.client) || self.hostile_seen[d.client] {
                continue;
            }
            let Some(s) = self.sender(d) else { continue };
            if s.is_disconnected() {
                continue;
            }
            let mut snapshots: Vec<(u8, Vec<UnackedInfo>, usize, usize)> = vec![];
            for (id, cm) in self.dirs[di].chans.iter() {
                if cm.cfg.kind.reliable() {
                    if let Some(u) = s.verif_unacked(*id) {
                        let avail = s.channel_available_memory(*id);
                        snapshots.push((*id, u, avail, cm.cfg.max_mem));
                    }
                }
            }
            for (id, un, avail, max) in snapshots {
                let cm = self.dirs[di].chans.get_mut(&id).unwrap();
                let base = cm.id_base;
                let set: BTreeMap<u64, &UnackedInfo> = un.iter().map(|u| (u.message_id, u)).collect();
                let mut not_handed_bytes = 0usize;
                for m in cm.msgs.iter_mut() {
                    if !m.fully_handed() {
                        not_handed_bytes += m.len();
                    }
                    match set.get(&m.mid) {
                        None => {
                            if !m.released {
                                m.released = true;
                                if !m.fully_handed() {
                                    let missing: Vec<usize> = (0..m.parts).filter(|&p| !m.handed[p]).take(5).collect();
                                    return Err(Fail::new(
                                        "released_early",
                                        format!(
                                            "client {} {} channel {id}: message id {} ({} bytes, {} parts) left the sender's unacknowledged set although parts {missing:?} were never handed to the peer",
                                            d.client,
                                            if d.to_client { "s2c" } else { "c2s" },
                                            m.mid,
                                            m.len(),
                                            m.parts
                                        ),
                                    ));
                                }
                            }
                        }
                        Some(u) => {
                            if m.released {
                                return Err(Fail::new("released_resurrected", format!("message id {} reappeared in the unacknowledged set", m.mid)));
                            }
                            for (p, a) in u.acked_slices.iter().enumerate() {
                                if *a && p < m.parts && !m.handed[p] {
                                    return Err(Fail::new(
                                        "slice_acked_early",
                                        format!("channel {id}: slice {p} of message id {} is marked acknowledged but was never handed to the peer", m.mid),
                                    ));
                                }
                            }
                        }
                    }
                }
                let _ = base;
                // hook-free cross-check through the public API
                if avail > max {
                    return Err(Fail::new("send_accounting", format!("channel {id}: available memory {avail} exceeds the configured maximum {max}")));
                }
                if max - avail < not_handed_bytes {
                    return Err(Fail::new(
                        "released_early_bytes",
                        format!("channel {id}: {} bytes in use but messages not fully handed over total {not_handed_bytes} bytes", max - avail),
                    ));
                }
            }
        }
        Ok(())
    }

    /// C02 promptness: after a delivery and a full drain, a fully handed-over unordered message was obtained.
    pub fn check_prompt(&self, d: Dir) -> Outcome {
        if self.excluded(d.client) || self.receiver(d).map(|c| c.is_disconnected()).unwrap_or(true) {
            return Ok(());
        }
        for (id, cm) in self.dirs[d.idx()].chans.iter() {
            if cm.cfg.kind != Kind::Unordered {
                continue;
            }
            for m in cm.msgs.iter() {
                if m.fully_handed() && m.obtained == 0 {
                    return Err(Fail::new(
                        "unordered_not_prompt",
                        format!("unordered channel {id}: message id {} ({} bytes) was completely handed over but is not available to the application after a full drain", m.mid, m.len()),
                    ));
                }
            }
        }
        Ok(())
    }

    /// Bytes of submitted reliable messages not yet obtained on a link (liveness bound input).
    pub fn outstanding(&self, d: Dir) -> (usize, usize) {
        let mut bytes = 0;
        let mut count = 0;
        for cm in self.dirs[d.idx()].chans.values() {
            if cm.cfg.kind.reliable() {
                for m in cm.msgs.iter() {
                    if m.obtained == 0 {
                        bytes += m.len().max(1);
                        count += 1;
                    }
                }
            }
        }
        (bytes, count)
    }
}

fn describe(p: &Packet) -> PInfo {
    match p {
        Packet::SmallReliable { channel_id, messages, .. } => PInfo::SmallRel { ch: *channel_id, msgs: messages.iter().map(|(i, m)| (*i, m.len())).collect() },
        Packet::SmallUnreliable { channel_id, messages, .. } => PInfo::SmallUnrel { ch: *channel_id, hashes: messages.iter().map(|m| (fnv(m), m.len())).collect() },
        Packet::ReliableSlice { channel_id, slice, .. } => PInfo::RelSlice { ch: *channel_id, mid: slice.message_id, idx: slice.slice_index, n: slice.num_slices, len: slice.payload.len() },
        Packet::UnreliableSlice { channel_id, slice, .. } => PInfo::UnrelSlice { ch: *channel_id, sid: slice.message_id, idx: slice.slice_index, n: slice.num_slices, len: slice.payload.len() },
        Packet::Ack { ack_ranges, .. } => PInfo::Ack { ranges: ack_ranges.clone() },
    }
}

fn describe_mismatch(cm: &ChanModel, m: &Bytes, h: u64) -> String {
    if m.len() >= HEADER && m[0] == 0xA5 {
        let serial = u32::from_le_bytes([m[4], m[5], m[6], m[7]]);
        let len = u32::from_le_bytes([m[8], m[9], m[10], m[11]]);
        let known = cm.by_hash.contains_key(&h);
        format!("header says client {} dir {} channel {} serial {} len {} (identical to a submitted message: {})", m[1], m[2], m[3], serial, len, known)
    } else {
        format!("no valid header; content hash known on this channel: {}", cm.by_hash.contains_key(&h))
    }
}
