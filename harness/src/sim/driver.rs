//! Generic decoder: choice sequence -> world configuration + operations + fault decisions,
//! followed by a fault-free heal phase with bounded-liveness and quiescence oracles.

use super::world::*;
use crate::engine::*;

#[derive(Clone)]
pub struct CfgSpec {
    /// weights for [Unreliable, Ordered, Unordered]
    pub kinds: [u32; 3],
    pub chans: (usize, usize),
    pub mems: &'static [usize],
    pub budgets: &'static [u64],
    pub resends: &'static [u64],
    pub clients: (usize, usize),
    /// at least one channel of this kind in both directions
    pub must_have: Option<Kind>,
}

pub fn gen_chans(src: &mut Src, spec: &CfgSpec) -> Vec<Chan> {
    let n = src.range(spec.chans.0, spec.chans.1);
    let mut v: Vec<Chan> = vec![];
    for i in 0..n {
        let kind = if i == 0 && spec.must_have.is_some() {
            spec.must_have.unwrap()
        } else {
            [Kind::Unreliable, Kind::Ordered, Kind::Unordered][src.weighted(&spec.kinds)]
        };
        v.push(Chan { id: i as u8, kind, max_mem: src.pick(spec.mems), resend_ms: src.pick(spec.resends) });
    }
    // channel order (priority) is generated too
    if src.chance(96) {
        v.reverse();
    }
    // ids need not be 0..n
    if src.chance(48) {
        for c in v.iter_mut() {
            c.id = c.id.wrapping_mul(37).wrapping_add(200);
        }
    }
    v
}

pub fn gen_cfg(src: &mut Src, spec: &CfgSpec) -> WorldCfg {
    let n_clients = src.range(spec.clients.0, spec.clients.1);
    let bytes_per_tick = src.pick(spec.budgets);
    let s2c = gen_chans(src, spec);
    let c2s = gen_chans(src, spec);
    // client ids are application-chosen: mostly small ones, sometimes the extremes of u64
    let id_scheme = src.pick(&[0u8, 0, 0, 1, 2]);
    WorldCfg { bytes_per_tick, s2c, c2s, n_clients, id_scheme }
}

#[derive(Clone)]
pub struct OpSpec {
    pub max_ops: usize,
    /// weights for [Tick, Send, Recv, Advance, Flush, Deliver, DeliverOne]
    pub ops: [u32; 7],
    /// weights for data packets [deliver, drop, duplicate, delay]
    pub data_faults: [u32; 4],
    /// weights for ack packets [deliver, drop, duplicate, delay]
    pub ack_faults: [u32; 4],
    pub dts: &'static [u64],
    pub delays: &'static [u64],
    /// size classes weights: [tiny 0..15, small 16..300, near slice boundary, multi-slice boundary, large]
    pub sizes: [u32; 5],
    pub max_slices: usize,
    pub burst: usize,
    /// chance (of 256) that the case runs with an application that drains after every delivery
    pub prompt_drain: u32,
    pub polite: bool,
    /// weight of the property-specific extra operation (0 = none)
    pub extra: u32,
}

#[derive(Clone, Debug, Hash)]
pub enum Op {
    Tick { dt: u64 },
    Send { client: usize, to_client: bool, ch: u8, len: usize, n: usize, accepted: usize },
    Recv { client: usize, to_client: bool, ch: u8, k: usize, got: usize },
    Advance { dt: u64 },
    Flush { client: usize, to_client: bool, faults: Vec<Fault> },
    Deliver { client: usize, to_client: bool, n: usize, permuted: bool },
    DeliverOne { client: usize, to_client: bool },
}

#[derive(Clone, Copy, Debug, Hash, PartialEq, Eq)]
pub enum Fault {
    Ok,
    Drop,
    Dup(u8),
    Delay(u64),
}

pub fn gen_len(src: &mut Src, sizes: &[u32; 5], max_slices: usize) -> usize {
    match src.weighted(sizes) {
        0 => src.below(16),
        1 => src.range(16, 300),
        2 => src.pick(&[1199usize, 1200, 1201, 1185, 1190, 1195]),
        3 => {
            let k = src.range(1, max_slices.max(2));
            (k * SLICE + src.pick(&[0usize, 1, SLICE - 1])).min(max_slices * SLICE + 1)
        }
        _ => src.range(1202, max_slices * SLICE),
    }
}

pub fn pick_dir(src: &mut Src, w: &World) -> Dir {
    let active: Vec<usize> = (0..w.cfg.n_clients).filter(|&i| w.active[i]).collect();
    let client = if active.is_empty() { 0 } else { active[src.below(active.len())] };
    let to_client = src.chance(128);
    Dir { client, to_client }
}

pub fn pick_chan(src: &mut Src, w: &World, d: Dir) -> u8 {
    let order = &w.dirs[d.idx()].order;
    order[src.below(order.len())]
}

/// Fault decision for every packet of a flush; labels what happened.
pub fn apply_faults(w: &mut World, ctx: &mut Ctx, pids: &[usize], spec: &OpSpec, faults_on: bool) -> Vec<Fault> {
    let mut out = vec![];
    for &pid in pids {
        let is_ack = matches!(w.packets[pid].info, PInfo::Ack { .. });
        let is_data = !is_ack;
        let f = if !faults_on {
            Fault::Ok
        } else {
            let weights = if is_ack { &spec.ack_faults } else { &spec.data_faults };
            match ctx.src.weighted(weights) {
                0 => Fault::Ok,
                1 => Fault::Drop,
                2 => Fault::Dup(1 + ctx.src.below(3) as u8),
                _ => Fault::Delay(ctx.src.pick(spec.delays)),
            }
        };
        let d = w.packets[pid].dir;
        match f {
            Fault::Ok => w.enqueue(pid, 0),
            Fault::Drop => {
                if is_ack {
                    w.dirs[d.idx()].lost_ack += 1;
                    ctx.label("ack_lost");
                } else {
                    w.dirs[d.idx()].lost_data += 1;
                    ctx.label("data_lost");
                    if matches!(w.packets[pid].info, PInfo::UnrelSlice { .. }) {
                        ctx.label("unrel_slice_lost");
                    }
                }
            }
            Fault::Dup(k) => {
                w.enqueue(pid, 0);
                for i in 0..k {
                    let extra = if ctx.src.chance(128) { ctx.src.pick(spec.delays) } else { 0 };
                    w.enqueue(pid, extra + i as u64);
                }
                if is_ack {
                    w.dirs[d.idx()].dup_ack += 1;
                    ctx.label("ack_dup");
                } else {
                    ctx.label("data_dup");
                }
            }
            Fault::Delay(ms) => {
                w.enqueue(pid, ms);
                if is_ack {
                    ctx.label("ack_delayed");
                    if ms >= 3000 {
                        ctx.label("ack_delayed_3s");
                    }
                } else if is_data {
                    ctx.label("data_delayed");
                }
            }
        }
        out.push(f);
    }
    out
}

pub fn label_packets(w: &World, ctx: &mut Ctx, pids: &[usize]) {
    for &pid in pids {
        match &w.packets[pid].info {
            PInfo::RelSlice { .. } => ctx.label("rel_slice_sent"),
            PInfo::UnrelSlice { .. } => ctx.label("unrel_slice_sent"),
            PInfo::SmallRel { msgs, .. } => {
                if msgs.len() > 1 {
                    ctx.label("packed_small")
                }
            }
            PInfo::SmallUnrel { hashes, .. } => {
                if hashes.len() > 1 {
                    ctx.label("packed_small")
                }
            }
            _ => {}
        }
    }
}

/// Hook called after every operation (continuous invariants of the property).
pub type StepHook<'h> = &'h mut dyn FnMut(&mut World, &mut Ctx) -> Outcome;

pub fn do_send(w: &mut World, ctx: &mut Ctx, spec: &OpSpec) -> Result<Op, Fail> {
    let d = pick_dir(&mut ctx.src, w);
    let ch = pick_chan(&mut ctx.src, w, d);
    let mut len = gen_len(&mut ctx.src, &spec.sizes, spec.max_slices);
    // now and then a message as large as the channel budget allows (sizes 'up to the channel budget')
    let max_mem = w.dirs[d.idx()].chans[&ch].cfg.max_mem;
    if max_mem <= 70_000 && ctx.src.chance(10) {
        len = max_mem.saturating_sub(ctx.src.pick(&[0usize, 1, 1199, 1200, 1201]));
        ctx.label("budget_sized_msg");
    }
    // now and then the transport mirrors its status into the client the way the netcode transport does (connecting while a
    // handshake is repeated, connected again right after): a status call never touches queued or transmitted messages
    if ctx.src.chance(5) && !w.clients[d.client].is_disconnected() {
        w.clients[d.client].set_connecting();
        w.clients[d.client].set_connected();
        ctx.label("status_toggled");
    }
    // now and then exactly what the channel has left (the budget is inclusive: a message that fills it to the byte is accepted
    // by the sender and must be by the receiver)
    if ctx.src.chance(8) {
        if let Some(avail) = w.sender(d).map(|s| s.channel_available_memory(ch)) {
            if avail > 0 && avail <= 70_000 {
                len = avail;
                ctx.label("fills_budget_exactly");
            }
        }
    }
    let mut n = 1 + if ctx.src.chance(64) { ctx.src.below(spec.burst.max(1)) } else { 0 };
    // now and then hundreds of tiny messages in one go (more than 255 fit into one packet)
    if ctx.src.chance(2) {
        len = ctx.src.below(2);
        n = ctx.src.pick(&[300usize, 256, 257, 420]);
        ctx.label("tiny_burst");
    }
    // now and then the sender of an unordered channel is moved far ahead in its id space (long history: ids of outstanding
    // messages more than 2^16 / 2^32 apart)
    if ctx.src.chance(6) && w.id_jump(d, ch, ctx.src.pick(&[70_000u64, 1 << 32, 20_000, 65_536])) {
        ctx.label("id_jump");
    }
    let mut accepted = 0;
    for _ in 0..n {
        if w.send(d, ch, len, spec.polite, 0)? {
            accepted += 1;
        }
    }
    if accepted > 0 {
        if len > SLICE {
            ctx.label("sliced_sent");
        }
        if [1199, 1200, 1201].contains(&len) || (len > SLICE && (len % SLICE <= 1 || len % SLICE == SLICE - 1)) {
            ctx.label("boundary_len");
        }
        if len < HEADER {
            ctx.label("tiny_msg");
        }
    }
    Ok(Op::Send { client: d.client, to_client: d.to_client, ch, len, n, accepted })
}

pub type ExtraOp<'h> = &'h mut dyn FnMut(&mut World, &mut Ctx) -> Outcome;

pub fn no_extra(_: &mut World, _: &mut Ctx) -> Outcome {
    Ok(())
}

pub fn run_ops(w: &mut World, ctx: &mut Ctx, spec: &OpSpec, hook: StepHook, extra: ExtraOp) -> Outcome {
    w.prompt_drain = ctx.src.chance(spec.prompt_drain);
    if w.prompt_drain {
        ctx.label("prompt_drain");
    }
    let mut ops = 0;
    while !ctx.src.exhausted() && ops < spec.max_ops {
        ops += 1;
        let mut weights = spec.ops.to_vec();
        weights.push(spec.extra);
        let kind = ctx.src.weighted(&weights);
        if kind == 7 {
            extra(w, ctx)?;
            w.step_check()?;
            hook(w, ctx)?;
            continue;
        }
        let op = match kind {
            0 => {
                // conventional tick for every connection
                let dt = ctx.src.pick(spec.dts);
                w.advance(dt);
                for d in w.all_dirs() {
                    w.deliver_due(d, None)?;
                    if w.or.prompt {
                        // promptness is judged after a full drain
                        w.drain_all(d)?;
                        w.check_prompt(d)?;
                    }
                }
                for d in w.all_dirs() {
                    if ctx.src.chance(200) {
                        w.drain_all(d)?;
                    }
                }
                for d in w.all_dirs() {
                    let pids = w.flush(d)?;
                    label_packets(w, ctx, &pids);
                    apply_faults(w, ctx, &pids, spec, true);
                }
                Op::Tick { dt }
            }
            1 => do_send(w, ctx, spec)?,
            2 => {
                let d = pick_dir(&mut ctx.src, w);
                let ch = pick_chan(&mut ctx.src, w, d);
                let k = 1 + ctx.src.below(4);
                let got = w.recv(d, ch, k)?;
                Op::Recv { client: d.client, to_client: d.to_client, ch, k, got }
            }
            3 => {
                let dt = ctx.src.pick(spec.dts);
                w.advance(dt);
                Op::Advance { dt }
            }
            4 => {
                let d = pick_dir(&mut ctx.src, w);
                let pids = w.flush(d)?;
                label_packets(w, ctx, &pids);
                let faults = apply_faults(w, ctx, &pids, spec, true);
                Op::Flush { client: d.client, to_client: d.to_client, faults }
            }
            5 => {
                let d = pick_dir(&mut ctx.src, w);
                let permuted = ctx.src.chance(96);
                let n = if permuted {
                    let mut s = ctx.src.clone();
                    let n = w.deliver_due(d, Some(&mut s))?;
                    ctx.src = s;
                    n
                } else {
                    w.deliver_due(d, None)?
                };
                if w.or.prompt && n > 0 {
                    w.drain_all(d)?;
                    w.check_prompt(d)?;
                }
                Op::Deliver { client: d.client, to_client: d.to_client, n, permuted }
            }
            _ => {
                // hand over exactly one due packet (lets a receive happen between two arrivals)
                let d = pick_dir(&mut ctx.src, w);
                let now = w.now_ms;
                let pos = w.dirs[d.idx()].link.iter().position(|f| f.due_ms <= now);
                if let Some(p) = pos {
                    let f = w.dirs[d.idx()].link.remove(p);
                    w.handover(f.pid)?;
                    if w.prompt_drain {
                        w.drain_all(d)?;
                    }
                    ctx.label("deliver_one");
                }
                Op::DeliverOne { client: d.client, to_client: d.to_client }
            }
        };
        ctx.op(&op);
        w.step_check()?;
        hook(w, ctx)?;
    }
    // statistics labels
    for ds in w.dirs.iter() {
        if ds.reordered > 0 {
            ctx.label("reordered");
        }
    }
    Ok(())
}

pub struct HealReport {
    pub ticks: usize,
    pub completed: bool,
    pub waived: bool,
}

pub const HEAL_DT: u64 = 500;

/// Units (small messages or slices) of reliable messages not yet obtained, per direction.
fn outstanding_units(w: &World, d: Dir) -> usize {
    let mut units = 0;
    if !w.active[d.client] {
        return 0;
    }
    for (ch, cm) in w.dirs[d.idx()].chans.iter() {
        if cm.cfg.kind.reliable() {
            for m in cm.msgs.iter() {
                if m.obtained == 0 && !w.exempt(d, *ch, m) {
                    units += m.parts;
                }
            }
        }
    }
    units
}

pub fn heal_tick(w: &mut World, ctx: &mut Ctx, hook: StepHook) -> Outcome {
    w.advance(HEAL_DT);
    for d in w.all_dirs() {
        w.deliver_due(d, None)?;
        w.drain_all(d)?;
        if w.or.prompt {
            w.check_prompt(d)?;
        }
    }
    for d in w.all_dirs() {
        let pids = w.flush(d)?;
        for pid in pids {
            w.enqueue(pid, 0);
        }
    }
    w.step_check()?;
    hook(w, ctx)
}

/// Units (small messages or slices) the sender of a direction still holds unacknowledged (hook).
fn sender_unacked_units(w: &World, d: Dir) -> usize {
    let Some(s) = w.sender(d) else { return 0 };
    let mut u = 0usize;
    for (id, cm) in w.dirs[d.idx()].chans.iter() {
        if cm.cfg.kind.reliable() {
            for m in s.verif_unacked(*id).unwrap_or_default() {
                u += if m.acked_slices.is_empty() { 1 } else { m.acked_slices.iter().filter(|a| !**a).count() };
            }
        }
    }
    u
}

/// Fault-free phase: every reliable message submitted on a healthy connection must be obtained
/// within `8 + 4 * ceil(units / floor(budget / 1200))` ticks of 500 ms, units = the larger of what is not yet obtained and
/// what the sender still holds unacknowledged.
pub fn heal(w: &mut World, ctx: &mut Ctx, liveness: bool, hook: StepHook) -> Result<HealReport, Fail> {
    let budget = w.cfg.bytes_per_tick;
    let per_tick = (budget / SLICE as u64) as usize;
    // per-connection bound computed at the start of the heal phase
    let mut bound_ticks = 0usize;
    let mut any = false;
    for i in 0..w.cfg.n_clients {
        for to_client in [false, true] {
            let d = Dir { client: i, to_client };
            let u = outstanding_units(w, d);
            if u > 0 {
                any = true;
            }
            // what the sender still believes unacknowledged is sent again first (lower ids first) and shares the tick budget with
            // what is really missing: acknowledgements lost in the fault phase, or ignored because a tick longer than 3 s made the
            // sender forget the packet before its acknowledgement arrived
            let held = if u > 0 { sender_unacked_units(w, d) } else { 0 };
            if per_tick > 0 {
                bound_ticks = bound_ticks.max(8 + 4 * u.max(held).div_ceil(per_tick));
            }
        }
    }
    // also wait for everything still in flight (late duplicates)
    let max_due = w.dirs.iter().flat_map(|d| d.link.iter().map(|f| f.due_ms)).max().unwrap_or(0);
    let flight_ticks = (max_due.saturating_sub(w.now_ms) / HEAL_DT) as usize + 1;
    if per_tick == 0 {
        ctx.label("budget_below_slice");
        // no liveness obligation: run a few ticks for the safety oracles only
        for _ in 0..(6 + flight_ticks).min(40) {
            heal_tick(w, ctx, hook)?;
        }
        return Ok(HealReport { ticks: 0, completed: false, waived: true });
    }
    let hard_cap = bound_ticks.max(8) + flight_ticks + 4;
    let mut ticks = 0;
    loop {
        let mut pending = false;
        for i in 0..w.cfg.n_clients {
            if !w.conn_alive(i) {
                continue;
            }
            for to_client in [false, true] {
                if outstanding_units(w, Dir { client: i, to_client }) > 0 {
                    pending = true;
                }
            }
        }
        if !pending && ticks >= flight_ticks.min(12) {
            break;
        }
        if ticks >= hard_cap {
            break;
        }
        heal_tick(w, ctx, hook)?;
        ticks += 1;
        if liveness && ticks == bound_ticks.max(8) {
            // judge now: every healthy connection must have obtained everything
            for i in 0..w.cfg.n_clients {
                if !w.conn_alive(i) {
                    ctx.label("disconnected_in_case");
                    continue;
                }
                if w.or.exclude_clients.contains(&i) {
                    continue;
                }
                for to_client in [false, true] {
                    let d = Dir { client: i, to_client };
                    let u = outstanding_units(w, d);
                    if u > 0 {
                        let mut detail = String::new();
                        for (id, cm) in w.dirs[d.idx()].chans.iter() {
                            if cm.cfg.kind.reliable() {
                                let missing: Vec<u64> = cm.msgs.iter().filter(|m| m.obtained == 0 && !w.exempt(d, *id, m)).map(|m| m.mid).take(4).collect();
                                if !missing.is_empty() {
                                    detail.push_str(&format!(" channel {id} ({:?}) missing ids {missing:?};", cm.cfg.kind));
                                }
                            }
                        }
                        return Err(Fail::new(
                            "liveness",
                            format!(
                                "client {i} {}: {u} units of reliable messages still not obtained {ticks} fault-free ticks of {HEAL_DT} ms after the network healed (bound {}), neither side disconnected:{detail}",
                                if to_client { "s2c" } else { "c2s" },
                                bound_ticks.max(8)
                            ),
                        ));
                    }
                }
            }
        }
    }
    let completed = !any || (0..w.cfg.n_clients).all(|i| !w.conn_alive(i) || [false, true].iter().all(|&t| outstanding_units(w, Dir { client: i, to_client: t }) == 0));
    if completed {
        ctx.label("healed_complete");
    }
    Ok(HealReport { ticks, completed, waived: false })
}

/// C09 quiescence: after everything was received, acknowledgements settle within a few ticks and,
/// 3 s later, every channel offers its whole budget and accounts nothing on the receive side.
pub fn quiescence(w: &mut World, ctx: &mut Ctx, hook: StepHook, memory: bool) -> Outcome {
    // let acknowledgements settle: everything the senders still hold unacknowledged (acknowledgements lost in the fault phase, or
    // ignored because a tick longer than 3 s dropped the sent-packet record first) has to be sent once more and acknowledged,
    // at the rate the tick budget allows - the same bound as for the heal phase
    let mut units = 0usize;
    for ds in w.dirs.iter() {
        if !w.conn_alive(ds.dir.client) {
            continue;
        }
        if let Some(s) = w.sender(ds.dir) {
            let mut u = 0usize;
            for (id, cm) in ds.chans.iter() {
                if cm.cfg.kind.reliable() {
                    for m in s.verif_unacked(*id).unwrap_or_default() {
                        u += if m.acked_slices.is_empty() { 1 } else { m.acked_slices.iter().filter(|a| !**a).count() };
                    }
                }
            }
            units = units.max(u);
        }
    }
    let per_tick = ((w.cfg.bytes_per_tick / SLICE as u64) as usize).max(1);
    let settle_ticks = 12 + 4 * units.div_ceil(per_tick);
    let mut settled = false;
    for _ in 0..settle_ticks {
        let mut all = true;
        for ds in w.dirs.iter() {
            let d = ds.dir;
            if !w.conn_alive(d.client) {
                continue;
            }
            if let Some(s) = w.sender(d) {
                for (id, cm) in ds.chans.iter() {
                    if cm.cfg.kind.reliable() && s.verif_unacked(*id).map(|u| !u.is_empty()).unwrap_or(false) {
                        all = false;
                    }
                }
            }
        }
        if all {
            settled = true;
            break;
        }
        heal_tick(w, ctx, hook)?;
    }
    if !settled {
        return Err(Fail::new(
            "not_released",
            format!("all reliable messages were obtained and acknowledgements flowed without faults for {settle_ticks} ticks ({units} units were unacknowledged, {per_tick} fit a tick), but the sender still holds unacknowledged messages"),
        ));
    }
    if !memory {
        ctx.label("quiescence_checked");
        return Ok(());
    }
    // let stale unreliable fragments expire: more than 3 s without progress
    w.advance(1600);
    w.advance(1600);
    for d in w.all_dirs() {
        w.drain_all(d)?;
    }
    for ds in w.dirs.iter() {
        let d = ds.dir;
        if !w.conn_alive(d.client) || w.or.exclude_clients.contains(&d.client) || w.hostile_seen[d.client] {
            continue;
        }
        let (s, r) = (w.sender(d).unwrap(), w.receiver(d).unwrap());
        for (id, cm) in ds.chans.iter() {
            let avail = s.channel_available_memory(*id);
            if avail != cm.cfg.max_mem {
                return Err(Fail::new(
                    "quiescent_send",
                    format!("client {} {} send channel {id} ({:?}) offers {avail} of {} bytes although everything was received and acknowledged", d.client, if d.to_client { "s2c" } else { "c2s" }, cm.cfg.kind, cm.cfg.max_mem),
                ));
            }
            if let Some((used, _)) = r.verif_receive_memory(*id) {
                if used != 0 {
                    return Err(Fail::new(
                        "quiescent_receive",
                        format!(
                            "client {} {} receive channel {id} ({:?}) still accounts {used} bytes after a full drain and more than 3 s of silence",
                            d.client,
                            if d.to_client { "s2c" } else { "c2s" },
                            cm.cfg.kind
                        ),
                    )
                    .sig(format!("quiescent_receive:{:?}", cm.cfg.kind)));
                }
            }
        }
    }
    ctx.label("quiescence_checked");
    Ok(())
}
