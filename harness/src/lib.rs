//! rv: property-based checks of lucaspoffo/renet (see /verif/DESIGN.md).
pub mod engine;
pub mod props;
pub mod sim;
