use rv::engine::runner::{self, RunOptions, DEFAULT_SEED};
use rv::engine::Tier;

fn usage() -> ! {
    eprintln!("usage: rv-check <property id> quick|thorough | rv-check <property id> --replay <file> | rv-check --list");
    std::process::exit(2);
}

fn main() {
    let args: Vec<String> = std::env::args().skip(1).collect();
    if args.first().map(|s| s.as_str()) == Some("--list") {
        for p in rv::props::all() {
            println!("{}", p.id());
        }
        return;
    }
    if args.len() < 2 {
        usage();
    }
    let Some(prop) = rv::props::by_id(&args[0]) else {
        eprintln!("unknown property {}", args[0]);
        std::process::exit(2);
    };
    if args[1] == "--replay" {
        let Some(path) = args.get(2) else { usage() };
        std::process::exit(runner::replay(prop.as_ref(), std::path::Path::new(path)));
    }
    let tier = match args[1].as_str() {
        "quick" => Tier::Quick,
        "thorough" => Tier::Thorough,
        _ => usage(),
    };
    let seed = std::env::var("VERIF_SEED").ok().and_then(|s| s.parse::<u64>().ok()).unwrap_or(DEFAULT_SEED);
    let threads = std::env::var("VERIF_THREADS")
        .ok()
        .and_then(|s| s.parse::<usize>().ok())
        .unwrap_or_else(|| std::thread::available_parallelism().map(|n| n.get()).unwrap_or(8).min(16));
    let scale = std::env::var("VERIF_SCALE").ok().and_then(|s| s.parse::<f64>().ok()).unwrap_or(1.0);
    let code = runner::run(prop.as_ref(), &RunOptions { tier, seed, threads, scale });
    std::process::exit(code);
}
