//! C15 Retransmission: not before resend_time, promptly after it, never once acked.

use super::simcase::*;
use crate::engine::*;
use crate::sim::driver::*;
use crate::sim::world::*;

pub struct C15;

fn spec(tier: Tier) -> SimSpec {
    let mut ops = default_ops();
    ops.max_ops = tier.pick(300, 900);
    ops.ops = [100, 50, 10, 40, 30, 20, 6];
    // irregular ticks around the resend times
    ops.dts = &[16, 1, 19, 20, 21, 49, 50, 51, 99, 100, 101, 150, 299, 300, 301, 399, 400, 401, 1000, 2999, 3000, 3500];
    ops.ack_faults = [110, 60, 30, 56];
    ops.delays = &[30, 120, 400, 1000, 2900, 3100, 4000];
    ops.max_slices = 6;
    SimSpec {
        cfg: CfgSpec {
            kinds: [0, 5, 5],
            chans: (1, 2),
            mems: MEMS_LARGE,
            budgets: &[20_000_000, 20_000_000, 60_000, 3_000],
            // also resend times beyond the 3 s after which a sent packet is forgotten
            resends: &[100, 20, 50, 300, 400, 4000, 3500],
            clients: (1, 1),
            must_have: None,
        },
        ops,
        oracles: Oracles { timing: true, ..Default::default() },
        liveness: false,
        quiescence: false,
        quiescence_memory: false,
    }
}

impl Property for C15 {
    fn id(&self) -> &'static str {
        "C15"
    }
    fn level(&self) -> &'static str {
        "fault_enumeration"
    }
    fn rule(&self) -> String {
        "A case = one or two reliable channels per direction, tick lengths shorter / equal / longer than resend_time and irregular (resend_time +-1 ms, 2999/3000/3500 ms around the 3 s sent-packet horizon), flushes without an update in between, acks lost, duplicated, delayed up to 4 s. The transmission log (message id / slice index -> sender-clock times) is read from decoded packets. Oracles: two transmissions of one unit are >= resend_time apart; every unit that is unacknowledged (hook), was never sent or last sent >= resend_time ago and still fits into the budget the flush left unused (budgets 20 MB, 60 kB, 3 kB per tick) is in the flush; after the sender processed an ack packet covering a packet that carried the unit and was sent < 3 s (sender clock) earlier, the unit never appears again. Non-trivial: >= 1 tick shorter than the channel's resend_time while a message was unacknowledged and >= 1 ack packet lost or delayed, with a sliced message in play. Distinct = hash of the decoded operation trace.".into()
    }
    fn assumptions(&self) -> Vec<String> {
        vec!["'budget allows' is judged against the budget left when the flush ended (a unit that fits into it fitted at every point of the flush); the per-channel priority rule is C14's".into()]
    }
    fn pbt(&self, tier: Tier) -> PbtCfg {
        PbtCfg { cases: tier.pick(120_000, 2_000_000), max_len: tier.pick(1500, 5000), shrink_ms: 120_000 }
    }
    fn required_labels(&self) -> Vec<&'static str> {
        vec!["short_tick", "ack_lost", "ack_delayed_3s", "rel_slice_sent", "resent"]
    }
    fn run_choices(&self, ctx: &mut Ctx) -> Outcome {
        let s = spec(ctx.tier);
        let mut last_now = 0u64;
        let mut step = |w: &mut World, ctx: &mut Ctx| -> Outcome {
            let dt = w.now_ms - last_now;
            last_now = w.now_ms;
            if dt > 0 {
                for ds in w.dirs.iter() {
                    for cm in ds.chans.values() {
                        if cm.cfg.kind.reliable() && dt < cm.cfg.resend_ms && cm.msgs.iter().any(|m| !m.tx_ms[0].is_empty() && m.obtained == 0) {
                            ctx.label("short_tick");
                        }
                    }
                }
            }
            for ds in w.dirs.iter() {
                for cm in ds.chans.values() {
                    if cm.msgs.iter().any(|m| m.tx_ms.iter().any(|t| t.len() >= 2)) {
                        ctx.label("resent");
                    }
                }
            }
            Ok(())
        };
        run_sim(ctx, &s, &mut step, &mut |_w, ctx, _r| {
            if ctx.has("short_tick") && (ctx.has("ack_lost") || ctx.has("ack_delayed")) && ctx.has("rel_slice_sent") && ctx.has("resent") {
                ctx.nontrivial = true;
            }
            Ok(())
        })
    }
}
