//! C16 Wire formats round-trip (renet packets, netcode packets, tokens); acks = the set.

use crate::engine::*;
use bytes::Bytes;
use renet::verif::{decode_packet, encode_packet, Packet, Slice};
use renet::{ChannelConfig, ConnectionConfig, RenetClient, SendType};
use renetcode::verif::{verif_open_private_token, verif_seal_private_token, Packet as NPacket, PrivateToken};
use renetcode::ConnectToken;
use std::collections::BTreeSet;
use std::net::{IpAddr, Ipv4Addr, Ipv6Addr, SocketAddr};
use std::ops::Range;
use std::time::Duration;

pub struct C16;

/// An io::Read / io::Write that transfers at most `piece` bytes per call.
struct Piecewise {
    data: Vec<u8>,
    pos: usize,
    piece: usize,
}

impl std::io::Read for Piecewise {
    fn read(&mut self, buf: &mut [u8]) -> std::io::Result<usize> {
        let n = buf.len().min(self.piece).min(self.data.len() - self.pos);
        buf[..n].copy_from_slice(&self.data[self.pos..self.pos + n]);
        self.pos += n;
        Ok(n)
    }
}

impl std::io::Write for Piecewise {
    fn write(&mut self, buf: &[u8]) -> std::io::Result<usize> {
        let n = buf.len().min(self.piece);
        self.data.extend_from_slice(&buf[..n]);
        Ok(n)
    }
    fn flush(&mut self) -> std::io::Result<()> {
        Ok(())
    }
}

pub const VARINT_MAX: u64 = (1 << 62) - 1;

/// Boundary-biased value that fits a QUIC varint.
pub fn gen_varint(src: &mut Src) -> (u64, bool) {
    match src.weighted(&[6, 4, 4, 4, 4, 3]) {
        0 => (src.below(64) as u64, false),
        1 => (62 + src.below(4) as u64, true),
        2 => (16382 + src.below(4) as u64, true),
        3 => ((1 << 30) - 2 + src.below(4) as u64, true),
        4 => (VARINT_MAX - src.below(4) as u64, true),
        _ => (src.u64() & VARINT_MAX, false),
    }
}

fn gen_payload(src: &mut Src, len: usize) -> Bytes {
    let mut v = vec![0u8; len];
    fill_stream(src.u16() as u64 + 1, &mut v);
    Bytes::from(v)
}

fn gen_len_small(src: &mut Src) -> usize {
    match src.weighted(&[6, 3, 3, 2]) {
        0 => src.below(16),
        1 => src.pick(&[0usize, 1, 63, 64, 65]),
        2 => src.range(1, 300),
        _ => src.pick(&[1199usize, 1200]),
    }
}

pub fn gen_ranges(src: &mut Src, max_ranges: usize) -> (Vec<Range<u64>>, bool) {
    // built descending from a boundary-biased top, gaps/sizes biased to 1
    let (top, mut boundary) = gen_varint(src);
    let n = 1 + src.below(max_ranges);
    let mut out: Vec<Range<u64>> = vec![];
    let mut end = top.saturating_add(1); // exclusive end <= 2^62
    let mut interesting = 0;
    for _ in 0..n {
        if end == 0 {
            break;
        }
        let size = match src.weighted(&[5, 3, 2]) {
            0 => 1,
            1 => 1 + src.below(4) as u64,
            _ => 1 + (src.u16() as u64),
        }
        .min(end);
        if size == 1 {
            interesting += 1;
        }
        let start = end - size;
        out.push(start..end);
        if start < 2 {
            break;
        }
        let gap = match src.weighted(&[5, 3, 2, 1]) {
            0 => 1,
            1 => 1 + src.below(4) as u64,
            2 => 1 + src.u16() as u64,
            _ => 1 + (src.u32() as u64) * 4096,
        }
        .min(start - 1);
        if gap == 1 {
            interesting += 1;
        }
        if gap == 0 {
            break;
        }
        end = start - gap;
    }
    out.reverse();
    if out.len() >= 3 && interesting >= 1 {
        boundary = true;
    }
    (out, boundary)
}

fn gen_renet_packet(src: &mut Src) -> (Packet, bool) {
    let (sequence, mut nt) = gen_varint(src);
    let channel_id = src.u8();
    let p = match src.below(5) {
        0 => {
            let n = src.weighted(&[4, 4, 2]);
            let n = match n {
                0 => src.below(3),
                1 => src.below(12),
                _ => src.below(300),
            };
            let mut messages = vec![];
            let mut total = 0;
            for _ in 0..n {
                let (id, b) = gen_varint(src);
                nt |= b;
                let len = if n > 12 { src.below(4) } else { gen_len_small(src) };
                total += len + 16;
                if total > 6000 {
                    break;
                }
                messages.push((id, gen_payload(src, len)));
            }
            Packet::SmallReliable { sequence, channel_id, messages }
        }
        1 => {
            let n = match src.weighted(&[4, 4, 2]) {
                0 => src.below(3),
                1 => src.below(12),
                _ => src.below(600),
            };
            let mut messages = vec![];
            let mut total = 0;
            for _ in 0..n {
                let len = if n > 12 { src.below(3) } else { gen_len_small(src) };
                total += len + 8;
                if total > 6000 {
                    break;
                }
                messages.push(gen_payload(src, len));
            }
            Packet::SmallUnreliable { sequence, channel_id, messages }
        }
        k @ (2 | 3) => {
            let (message_id, b) = gen_varint(src);
            nt |= b;
            let num_slices = match src.weighted(&[4, 3, 2]) {
                0 => 1 + src.below(8),
                1 => src.pick(&[1usize, 2, 63, 64, 65, 16383, 16384, 999_999, 1_000_000]),
                _ => 1 + src.below(1_000_000),
            };
            let slice_index = match src.weighted(&[5, 3]) {
                0 => src.below(num_slices),
                _ => num_slices - 1,
            };
            let len = match src.weighted(&[4, 3, 3]) {
                0 => 1200,
                1 => src.pick(&[1usize, 2, 63, 64, 1199, 1200]),
                _ => src.range(1, 1200),
            };
            let slice = Slice { message_id, slice_index, num_slices, payload: gen_payload(src, len) };
            if k == 2 {
                Packet::ReliableSlice { sequence, channel_id, slice }
            } else {
                Packet::UnreliableSlice { sequence, channel_id, slice }
            }
        }
        _ => {
            let max = match src.weighted(&[5, 3, 2]) {
                0 => 4,
                1 => 64,
                _ => 150,
            };
            let (ack_ranges, b) = gen_ranges(src, max);
            nt |= b;
            Packet::Ack { sequence, ack_ranges }
        }
    };
    (p, nt)
}

fn key_from(src: &mut Src) -> [u8; 32] {
    let mut k = [0u8; 32];
    fill_stream(0x6b65_7900 + src.u16() as u64, &mut k);
    k
}

pub fn gen_netcode_sequence(src: &mut Src) -> (u64, usize) {
    // sequence-length class 0..8 bytes
    let class = src.below(9);
    let seq = match class {
        0 => 0,
        8 => match src.below(3) {
            0 => u64::MAX,
            1 => 1u64 << 56,
            _ => (1u64 << 63) | src.u32() as u64,
        },
        c => {
            let lo = 1u64 << (8 * (c - 1));
            let hi = (1u64 << (8 * c)) - 1;
            match src.below(3) {
                0 => lo,
                1 => hi,
                _ => lo + (src.u64() % (hi - lo + 1)),
            }
        }
    };
    (seq, class)
}

fn gen_addrs(src: &mut Src) -> Vec<SocketAddr> {
    let n = match src.weighted(&[4, 2, 2]) {
        0 => 1 + src.below(3),
        1 => 32,
        _ => 1 + src.below(32),
    };
    (0..n)
        .map(|_| {
            let port = src.u16();
            if src.chance(40) {
                // addresses of special form: IPv4-mapped / IPv4-compatible IPv6, unspecified, loopback, broadcast, link-local, multicast
                let (x, y) = (src.u8(), src.u8());
                let special: [IpAddr; 10] = [
                    IpAddr::V6(Ipv4Addr::new(192, 0, x, y).to_ipv6_mapped()),
                    IpAddr::V6(Ipv6Addr::new(0, 0, 0, 0, 0, 0, 0xc000 | x as u16, y as u16)),
                    IpAddr::V6(Ipv6Addr::UNSPECIFIED),
                    IpAddr::V6(Ipv6Addr::LOCALHOST),
                    IpAddr::V4(Ipv4Addr::UNSPECIFIED),
                    IpAddr::V4(Ipv4Addr::BROADCAST),
                    IpAddr::V4(Ipv4Addr::LOCALHOST),
                    IpAddr::V6(Ipv6Addr::new(0xfe80, 0, 0, 0, x as u16, y as u16, 1, 2)),
                    IpAddr::V6(Ipv6Addr::new(0xff02, 0, 0, 0, 0, 0, 0, x as u16)),
                    IpAddr::V6(Ipv6Addr::new(0x64, 0xff9b, 0, 0, 0, 0, 0xc000 | x as u16, y as u16)),
                ];
                SocketAddr::new(special[src.below(special.len())], port)
            } else if src.chance(100) {
                let mut ip = [0u8; 16];
                fill_stream(src.u16() as u64, &mut ip);
                SocketAddr::new(IpAddr::V6(Ipv6Addr::from(ip)), port)
            } else {
                SocketAddr::new(IpAddr::V4(Ipv4Addr::new(src.u8(), src.u8(), src.u8(), src.u8())), port)
            }
        })
        .collect()
}

fn ack_endpoint() -> RenetClient {
    let ch = vec![ChannelConfig { channel_id: 0, max_memory_usage_bytes: 100_000, send_type: SendType::Unreliable }];
    RenetClient::new(ConnectionConfig {
        available_bytes_per_tick: 60_000,
        server_channels_config: ch.clone(),
        client_channels_config: ch,
    })
}

fn carrier(sequence: u64) -> Vec<u8> {
    encode_packet(&Packet::SmallUnreliable { sequence, channel_id: 0, messages: vec![] }, 64).expect("carrier encodes")
}

fn ranges_of(set: &BTreeSet<u64>) -> usize {
    let mut n = 0;
    let mut prev: Option<u64> = None;
    for &s in set {
        if prev.map(|p| p + 1 != s).unwrap_or(true) {
            n += 1;
        }
        prev = Some(s);
    }
    n
}

/// Feed sequences in the given order to a real endpoint, then read its Ack packet.
fn ack_case(order: &[u64], ctx: &mut Ctx) -> Outcome {
    let mut ep = ack_endpoint();
    let mut model: BTreeSet<u64> = BTreeSet::new();
    let mut ever_over_64 = false;
    for &s in order {
        ep.process_packet(&carrier(s));
        model.insert(s);
        if ranges_of(&model) > 64 {
            ever_over_64 = true;
        }
    }
    if let Some(r) = ep.disconnect_reason() {
        return Err(Fail::new("ack_feed", format!("endpoint disconnected while receiving well-formed packets: {r:?}")));
    }
    let packets = ep.get_packets_to_send();
    if let Some(r) = ep.disconnect_reason() {
        return Err(Fail::new("ack_emit", format!("endpoint disconnected while emitting its ack packet: {r:?} (model ranges {})", ranges_of(&model))));
    }
    if model.is_empty() {
        if !packets.is_empty() {
            return Err(Fail::new("ack_spurious", "ack packet without any received sequence"));
        }
        return Ok(());
    }
    let Some(last) = packets.last() else {
        return Err(Fail::new("ack_missing", "no ack packet emitted although sequences were received"));
    };
    let decoded = decode_packet(last).map_err(|e| Fail::new("ack_decode", format!("emitted ack packet does not decode: {e:?}")))?;
    let Packet::Ack { ack_ranges, .. } = decoded else {
        return Err(Fail::new("ack_missing", "last packet is not an ack packet"));
    };
    let mut denoted: BTreeSet<u64> = BTreeSet::new();
    let mut total: u64 = 0;
    for r in ack_ranges.iter() {
        total += r.end - r.start;
        if total > 5_000_000 {
            return Err(Fail::new("ack_set", "ack packet denotes millions of sequences that were never received"));
        }
        denoted.extend(r.clone());
    }
    if !ever_over_64 {
        if denoted != model {
            let extra: Vec<_> = denoted.difference(&model).take(5).collect();
            let missing: Vec<_> = model.difference(&denoted).take(5).collect();
            return Err(Fail::new(
                "ack_set",
                format!("ack packet denotes a different set than the sequences received: extra {extra:?} missing {missing:?} (arrival order {:?})", &order[..order.len().min(16)]),
            ));
        }
    } else {
        ctx.label("over64");
        if !denoted.is_subset(&model) {
            return Err(Fail::new("ack_set", "ack packet (more than 64 ranges seen) acknowledges a sequence never received"));
        }
        if denoted.iter().next_back() != model.iter().next_back() {
            return Err(Fail::new("ack_set", "ack packet (more than 64 ranges seen) lost the newest received sequence"));
        }
        if ack_ranges.len() > 64 {
            return Err(Fail::new("ack_cap", format!("ack packet carries {} ranges, the documented cap is 64", ack_ranges.len())));
        }
    }
    let nr = ranges_of(&model);
    if nr >= 3 {
        ctx.label("ranges>=3");
        ctx.nontrivial = true;
    }
    Ok(())
}

const UNIVERSE_BASES: [u64; 3] = [0, 58, 16378];

fn perm_order(items: &mut Vec<u64>, mode: u64) {
    match mode {
        0 => {}
        1 => items.reverse(),
        m => {
            // deterministic pseudo-random permutation
            let mut s = m.wrapping_mul(0x9E37_79B9) ^ items.len() as u64;
            for i in (1..items.len()).rev() {
                s = splitmix(s);
                let j = (s % (i as u64 + 1)) as usize;
                items.swap(i, j);
            }
        }
    }
}

impl C16 {
    fn renet_value(&self, ctx: &mut Ctx) -> Outcome {
        let (p, nt) = gen_renet_packet(&mut ctx.src);
        ctx.op(&format!("{:?}", short_packet(&p)));
        let Ok(bytes) = encode_packet(&p, 16384) else {
            ctx.label("encode_refused");
            return Ok(());
        };
        let d = decode_packet(&bytes).map_err(|e| Fail::new("renet_roundtrip", format!("decode(encode(v)) failed with {e:?} for {:?}", short_packet(&p))))?;
        if d != p {
            return Err(Fail::new("renet_roundtrip", format!("decode(encode(v)) != v: v={:?} got={:?}", short_packet(&p), short_packet(&d))));
        }
        ctx.label("renet_value");
        if nt {
            ctx.nontrivial = true;
        }
        Ok(())
    }

    fn renet_bytes(&self, ctx: &mut Ctx) -> Outcome {
        // mutated serialisation of a value, or raw bytes
        let bytes: Vec<u8> = if ctx.src.chance(200) {
            let (p, _) = gen_renet_packet(&mut ctx.src);
            let mut b = encode_packet(&p, 16384).unwrap_or_default();
            b.truncate(1400);
            let muts = 1 + ctx.src.below(4);
            for _ in 0..muts {
                if b.is_empty() {
                    break;
                }
                match ctx.src.below(4) {
                    0 => {
                        let i = if ctx.src.chance(160) { ctx.src.below(b.len().min(24)) } else { ctx.src.below(b.len()) };
                        b[i] = ctx.src.u8();
                    }
                    1 => {
                        let i = ctx.src.below(b.len());
                        b[i] ^= 1 << ctx.src.below(8);
                    }
                    2 => {
                        let n = ctx.src.below(b.len() + 1);
                        b.truncate(n);
                    }
                    _ => {
                        let extra = ctx.src.below(16);
                        let tail = ctx.src.bytes(extra);
                        b.extend(tail);
                    }
                }
            }
            b
        } else {
            let n = ctx.src.below(200);
            ctx.src.bytes(n)
        };
        ctx.op(&(bytes.len(), fnv(&bytes)));
        if let Ok(v) = decode_packet(&bytes) {
            ctx.label("bytes_decoded");
            ctx.nontrivial = true;
            let re = encode_packet(&v, 70_000).map_err(|e| Fail::new("renet_reencode", format!("a decoded value does not re-encode: {e:?} {:?}", short_packet(&v))))?;
            let d2 = decode_packet(&re).map_err(|e| Fail::new("renet_reencode", format!("re-encoded bytes do not decode: {e:?}")))?;
            if d2 != v {
                return Err(Fail::new("renet_reencode", format!("decode(encode(decode(b))) differs: {:?} vs {:?}", short_packet(&v), short_packet(&d2))));
            }
        }
        Ok(())
    }

    fn netcode_value(&self, ctx: &mut Ctx) -> Outcome {
        let src = &mut ctx.src;
        let (seq, class) = gen_netcode_sequence(src);
        let key = key_from(src);
        let protocol_id = if src.chance(128) { src.u64() } else { src.below(4) as u64 };
        let kind = src.below(7);
        let mut payload_buf = vec![];
        let mut token_data = [0u8; 300];
        let packet: NPacket = match kind {
            0 => {
                let mut data = [0u8; 1024];
                fill_stream(src.u16() as u64, &mut data);
                let mut xnonce = [0u8; 24];
                fill_stream(src.u16() as u64 + 7, &mut xnonce);
                let mut version_info = *b"NETCODE 1.02\0";
                if src.chance(40) {
                    version_info[src.below(13)] = src.u8();
                }
                NPacket::ConnectionRequest { version_info, protocol_id: src.u64(), expire_timestamp: src.u64(), xnonce, data }
            }
            1 => NPacket::ConnectionDenied,
            2 => {
                fill_stream(src.u16() as u64, &mut token_data);
                NPacket::Challenge { token_sequence: src.u64(), token_data }
            }
            3 => {
                fill_stream(src.u16() as u64, &mut token_data);
                NPacket::Response { token_sequence: src.u64(), token_data }
            }
            4 => NPacket::KeepAlive { client_index: src.u32(), max_clients: src.u32() },
            5 => {
                let len = match src.weighted(&[3, 3, 3]) {
                    0 => src.below(32),
                    1 => src.pick(&[0usize, 1, 1299, 1300]),
                    _ => src.below(1301),
                };
                payload_buf = vec![0u8; len];
                fill_stream(src.u16() as u64, &mut payload_buf);
                NPacket::Payload(&payload_buf)
            }
            _ => NPacket::Disconnect,
        };
        ctx.op(&(kind, seq, protocol_id));
        let mut buf = [0u8; 1400];
        let len = packet
            .encode(&mut buf, protocol_id, Some((seq, &key)))
            .map_err(|e| Fail::new("netcode_encode", format!("encode failed for kind {kind} seq {seq}: {e}")))?;
        let mut wire = buf[..len].to_vec();
        let (dseq, d) = NPacket::decode(&mut wire, protocol_id, Some(&key), None)
            .map_err(|e| Fail::new("netcode_roundtrip", format!("decode(encode(v)) failed: {e} (kind {kind}, seq {seq}, len {len})")))?;
        if d != packet {
            return Err(Fail::new("netcode_roundtrip", format!("decode(encode(v)) != v for kind {kind} seq {seq}")));
        }
        if kind != 0 && dseq != seq {
            return Err(Fail::new("netcode_sequence", format!("sequence returned {dseq} differs from the one sealed {seq}")));
        }
        // the challenge token inside Challenge / Response packets: what the server seals for a client id and user data opens to the
        // same id and user data (ids of every magnitude)
        if kind == 2 || kind == 3 {
            let cid = match seq % 5 {
                0 => u64::from_le_bytes(key[..8].try_into().unwrap()),
                1 => u64::MAX,
                2 => 1 << 56,
                3 => (1 << 63) | (seq >> 3),
                _ => seq & 0xFFFF,
            };
            let mut ud = [0u8; 256];
            fill_stream(cid ^ 0x77, &mut ud);
            let tseq = seq.rotate_left(17);
            match NPacket::generate_challenge(cid, &ud, tseq, &key) {
                Ok(NPacket::Challenge { token_sequence, token_data }) => {
                    let opened = renetcode::verif::ChallengeToken::decode(token_data, token_sequence, &key).map_err(|e| Fail::new("challenge_token_roundtrip", format!("a challenge token does not open under its own key and sequence: {e}")))?;
                    if opened.client_id != cid || opened.user_data != ud || token_sequence != tseq {
                        return Err(Fail::new("challenge_token_roundtrip", format!("challenge token sealed for client id {cid:#x} opens to client id {:#x} (user data equal: {})", opened.client_id, opened.user_data == ud)));
                    }
                    ctx.label("challenge_token");
                }
                other => return Err(Fail::new("challenge_token_roundtrip", format!("generate_challenge returned {:?}", other.map(|p| p.id())))),
            }
        }
        ctx.label("netcode_value");
        if class >= 2 || kind == 5 {
            ctx.nontrivial = true;
        }
        Ok(())
    }

    fn netcode_request_bytes(&self, ctx: &mut Ctx) -> Outcome {
        // arbitrary bytes of request kind decode without a key; the value must re-encode to the same value
        let src = &mut ctx.src;
        let len = match src.weighted(&[3, 3, 2]) {
            0 => 1062,
            1 => src.pick(&[17usize, 18, 19, 1061, 1062, 1063, 1400]),
            _ => src.below(1401),
        };
        let mut b = vec![0u8; len];
        fill_stream(src.u16() as u64 + 99, &mut b);
        if !b.is_empty() {
            b[0] = if src.chance(200) { src.u8() & 0xF0 } else { src.u8() };
        }
        ctx.op(&(len, b.first().copied()));
        let mut wire = b.clone();
        if let Ok((_, v)) = NPacket::decode(&mut wire, 0, None, None) {
            ctx.label("request_bytes_decoded");
            ctx.nontrivial = true;
            let mut buf = [0u8; 1400];
            let n = v.encode(&mut buf, 0, None).map_err(|e| Fail::new("netcode_reencode", format!("decoded request does not re-encode: {e}")))?;
            let mut wire2 = buf[..n].to_vec();
            let (_, v2) = NPacket::decode(&mut wire2, 0, None, None).map_err(|e| Fail::new("netcode_reencode", format!("re-encoded request does not decode: {e}")))?;
            let mut wire3 = b.clone();
            let (_, v) = NPacket::decode(&mut wire3, 0, None, None).unwrap();
            if v != v2 {
                return Err(Fail::new("netcode_reencode", "decode(encode(decode(b))) differs for a request"));
            }
        }
        Ok(())
    }

    fn token_value(&self, ctx: &mut Ctx) -> Outcome {
        let src = &mut ctx.src;
        renetcode::verif::set_rng_seed(Some(src.u32() as u64 + 1));
        let addrs = gen_addrs(src);
        let n = addrs.len();
        let v6 = addrs.iter().filter(|a| a.is_ipv6()).count();
        let key = key_from(src);
        let protocol_id = src.u64();
        let now = Duration::from_secs(src.u32() as u64);
        let expire = src.u32() as u64;
        let client_id = src.u64();
        let timeout = src.u32() as i32;
        let mut ud = [0u8; 256];
        fill_stream(src.u16() as u64, &mut ud);
        ctx.op(&(n, v6, protocol_id, client_id, timeout));
        if ctx.src.chance(12) {
            // an address list the format cannot carry (none, or more than 32) is refused with an error - no token, no panic
            let mut bad = addrs.clone();
            if ctx.src.chance(128) {
                bad.clear();
            } else {
                let extra = ctx.src.below(8);
                while bad.len() <= 32 + extra {
                    bad.push(addrs[bad.len() % n]);
                }
            }
            ctx.label("unrepresentable_address_list");
            if let Ok(t) = ConnectToken::generate(now, protocol_id, expire, client_id, timeout, bad.clone(), Some(&ud), &key) {
                return Err(Fail::new("token_generate", format!("generate accepted a list of {} addresses (token lists {})", bad.len(), t.server_addresses.iter().flatten().count())));
            }
        }
        let token = ConnectToken::generate(now, protocol_id, expire, client_id, timeout, addrs.clone(), Some(&ud), &key)
            .map_err(|e| Fail::new("token_generate", format!("generate refused a valid request: {e}")))?;
        renetcode::verif::set_rng_seed(None);
        let mut w = Vec::new();
        token.write(&mut w).map_err(|e| Fail::new("token_write", e.to_string()))?;
        let r = ConnectToken::read(&mut std::io::Cursor::new(&w)).map_err(|e| Fail::new("token_roundtrip", format!("read(write(t)) failed: {e} ({n} addresses, {v6} IPv6)")))?;
        if r != token {
            return Err(Fail::new("token_roundtrip", format!("read(write(t)) != t ({n} addresses, {v6} IPv6)")));
        }
        for (i, a) in addrs.iter().enumerate() {
            if r.server_addresses[i] != Some(*a) {
                return Err(Fail::new("token_roundtrip", format!("address {i} changed through generate/write/read")));
            }
        }
        // the same through a reader and a writer that move only a few bytes per call (a token arrives over a stream: io::Read and
        // io::Write are allowed to transfer less than asked for)
        {
            let piece = [1usize, 7, 64, 300, 512, 1000, 2047][(client_id % 7) as usize];
            let mut pw = Piecewise { data: Vec::new(), pos: 0, piece };
            token.write(&mut pw).map_err(|e| Fail::new("token_write", format!("write through a writer taking {piece} bytes per call failed: {e}")))?;
            if pw.data != w {
                return Err(Fail::new("token_roundtrip", format!("write through a writer taking {piece} bytes per call produced other bytes ({} instead of {})", pw.data.len(), w.len())));
            }
            let r2 = ConnectToken::read(&mut pw).map_err(|e| Fail::new("token_roundtrip", format!("read(write(t)) failed through a reader giving {piece} bytes per call: {e}")))?;
            if r2 != token {
                return Err(Fail::new("token_roundtrip", format!("read(write(t)) != t through a reader giving {piece} bytes per call")));
            }
            ctx.label("token_piecewise_io");
        }
        // sealed part: open gives exactly what was sealed
        let p = verif_open_private_token(&token.private_data, protocol_id, token.expire_timestamp, &token.xnonce, &key)
            .map_err(|e| Fail::new("token_open", format!("sealed part does not open under its own key: {e}")))?;
        if p.client_id != client_id || p.user_data != ud || p.timeout_seconds != timeout || p.server_addresses != token.server_addresses
            || p.client_to_server_key != token.client_to_server_key || p.server_to_client_key != token.server_to_client_key
        {
            return Err(Fail::new("token_open", "opened private token differs from the public/generated fields"));
        }
        // explicit seal/open of an arbitrary private token
        let src = &mut ctx.src;
        let mut sa = [None; 32];
        for (i, a) in addrs.iter().enumerate() {
            sa[i] = Some(*a);
        }
        let pt = PrivateToken { client_id, timeout_seconds: timeout, server_addresses: sa, client_to_server_key: key_from(src), server_to_client_key: key_from(src), user_data: ud };
        let mut xnonce = [0u8; 24];
        fill_stream(src.u16() as u64, &mut xnonce);
        let sealed = verif_seal_private_token(&pt, protocol_id, expire, &xnonce, &key).map_err(|e| Fail::new("token_seal", e.to_string()))?;
        let opened = verif_open_private_token(&sealed, protocol_id, expire, &xnonce, &key).map_err(|e| Fail::new("token_open", e.to_string()))?;
        if opened != pt {
            return Err(Fail::new("token_open", "open(seal(t)) != t"));
        }
        ctx.label("token_value");
        if n >= 2 || v6 > 0 {
            ctx.nontrivial = true;
        }
        Ok(())
    }

    fn token_bytes(&self, ctx: &mut Ctx) -> Outcome {
        // field-wise mutations of a valid serialisation; whatever reads successfully must round-trip
        let src = &mut ctx.src;
        renetcode::verif::set_rng_seed(Some(src.u32() as u64 + 1));
        let addrs = gen_addrs(src);
        let key = key_from(src);
        let token = ConnectToken::generate(Duration::from_secs(10), 7, 30, 1, 5, addrs.clone(), None, &key);
        renetcode::verif::set_rng_seed(None);
        let Ok(token) = token else { return Ok(()) };
        let mut w = Vec::new();
        token.write(&mut w).map_err(|e| Fail::new("token_write", e.to_string()))?;
        // the smallest serialized token (one IPv4 address) has 1172 bytes; the edits below address fields at their fixed offsets
        if w.len() < 1172 {
            return Err(Fail::new("token_write", format!("ConnectToken::write produced {} bytes for a token with {} address(es)", w.len(), token.server_addresses.iter().flatten().count())));
        }
        const ADDR_OFF: usize = 8 + 13 + 8 + 8 + 8 + 24 + 1024 + 4;
        let muts = 1 + src.below(3);
        let mut what = vec![];
        for _ in 0..muts {
            match src.below(6) {
                5 => {
                    // an address entry of type NONE spliced in at an entry boundary (count adjusted)
                    let count = u32::from_le_bytes([w[ADDR_OFF], w[ADDR_OFF + 1], w[ADDR_OFF + 2], w[ADDR_OFF + 3]]);
                    let k = src.below(addrs.len() + 1);
                    let mut off = ADDR_OFF + 4;
                    for a in addrs.iter().take(k) {
                        off += if a.is_ipv6() { 19 } else { 7 };
                    }
                    if off <= w.len() && count as usize == addrs.len() {
                        w.insert(off, 0);
                        w[ADDR_OFF..ADDR_OFF + 4].copy_from_slice(&(count + 1).to_le_bytes());
                        what.push(format!("none_entry@{k}"));
                    }
                }
                0 => {
                    // address count
                    let c = src.pick(&[0u32, 1, 2, 31, 32, 33, 255, u32::MAX]);
                    w[ADDR_OFF..ADDR_OFF + 4].copy_from_slice(&c.to_le_bytes());
                    what.push(format!("count={c}"));
                }
                1 => {
                    // an address type tag
                    let t = src.pick(&[0u8, 1, 2, 3, 255]);
                    w[ADDR_OFF + 4] = t;
                    what.push(format!("type0={t}"));
                }
                2 => {
                    let i = ADDR_OFF + src.below(40.min(w.len() - ADDR_OFF));
                    w[i] = src.u8();
                    what.push(format!("byte@{i}"));
                }
                3 => {
                    let n = src.below(w.len() + 1);
                    w.truncate(n);
                    what.push(format!("truncate={n}"));
                    break;
                }
                _ => {
                    let i = src.below(w.len().max(1)).min(w.len().saturating_sub(1));
                    if !w.is_empty() {
                        w[i] ^= 1 << src.below(8);
                    }
                    what.push(format!("flip@{i}"));
                }
            }
            if w.len() < ADDR_OFF + 8 {
                break;
            }
        }
        ctx.op(&what);
        if let Ok(t) = ConnectToken::read(&mut std::io::Cursor::new(&w)) {
            ctx.label("token_bytes_decoded");
            ctx.nontrivial = true;
            let mut w2 = Vec::new();
            t.write(&mut w2).map_err(|e| Fail::new("token_rewrite", e.to_string()))?;
            match ConnectToken::read(&mut std::io::Cursor::new(&w2)) {
                Ok(t2) if t2 == t => {}
                Ok(_) => return Err(Fail::new("token_reencode", format!("a token that reads successfully does not survive write/read unchanged (mutations {what:?})"))),
                Err(e) => return Err(Fail::new("token_reencode", format!("a token that reads successfully re-encodes to bytes that fail to read: {e} (mutations {what:?})"))),
            }
        }
        Ok(())
    }

    fn ack_generated(&self, ctx: &mut Ctx) -> Outcome {
        let src = &mut ctx.src;
        let (base, _) = gen_varint(src);
        let base = base.min(VARINT_MAX - 400_000);
        let n = match src.weighted(&[4, 3, 2]) {
            0 => 1 + src.below(12),
            1 => 1 + src.below(80),
            _ => 1 + src.below(300),
        };
        let spread = match src.weighted(&[4, 3, 2]) {
            0 => 2,
            1 => 3,
            _ => 1 + src.below(1000) as u64,
        };
        let mut order: Vec<u64> = vec![];
        let mut cur = base;
        for _ in 0..n {
            cur += 1 + (src.below(spread as usize) as u64);
            order.push(cur);
        }
        match src.weighted(&[3, 3, 4]) {
            0 => {}
            1 => order.reverse(),
            _ => {
                for i in (1..order.len()).rev() {
                    let j = src.below(i + 1);
                    order.swap(i, j);
                }
            }
        }
        // duplicates
        let d = src.below(4);
        for _ in 0..d {
            let i = src.below(order.len());
            let v = order[i];
            let at = src.below(order.len() + 1);
            order.insert(at, v);
        }
        ctx.op(&order);
        ack_case(&order, ctx)
    }
}

#[derive(Debug)]
#[allow(dead_code)]
enum Short {
    SmallReliable(u64, u8, Vec<(u64, usize)>),
    SmallUnreliable(u64, u8, Vec<usize>),
    Slice(bool, u64, u8, u64, usize, usize, usize),
    Ack(u64, Vec<Range<u64>>),
}

fn short_packet(p: &Packet) -> Short {
    match p {
        Packet::SmallReliable { sequence, channel_id, messages } => {
            Short::SmallReliable(*sequence, *channel_id, messages.iter().take(6).map(|(i, m)| (*i, m.len())).collect())
        }
        Packet::SmallUnreliable { sequence, channel_id, messages } => {
            Short::SmallUnreliable(*sequence, *channel_id, messages.iter().take(6).map(|m| m.len()).collect())
        }
        Packet::ReliableSlice { sequence, channel_id, slice } => {
            Short::Slice(true, *sequence, *channel_id, slice.message_id, slice.slice_index, slice.num_slices, slice.payload.len())
        }
        Packet::UnreliableSlice { sequence, channel_id, slice } => {
            Short::Slice(false, *sequence, *channel_id, slice.message_id, slice.slice_index, slice.num_slices, slice.payload.len())
        }
        Packet::Ack { sequence, ack_ranges } => Short::Ack(*sequence, ack_ranges.iter().take(8).cloned().collect()),
    }
}

impl Property for C16 {
    fn id(&self) -> &'static str {
        "C16"
    }
    fn level(&self) -> &'static str {
        "exploration"
    }
    fn rule(&self) -> String {
        "Cases: (a) generated values of every renet packet kind, every netcode packet kind x sequence-length class 0..8 x payload 0..1300, challenge tokens for client ids of every magnitude (seal / open), connect tokens with 1..32 IPv4/IPv6 addresses (also written and read through an io::Write / io::Read that moves 1..2047 bytes per call): decode(encode(v)) == v; (b) mutated serialisations and raw bytes: decode(b)=Ok(v) => decode(encode(v))=Ok(v) for renet packets, keyless netcode requests and ConnectToken::read; (c) ack packets emitted by a real endpoint after feeding it chosen sequence numbers, compared with a BTreeSet model (exhaustively: all subsets of three 12-element universes in 4 arrival orders; generated: up to 300 sequences). Non-trivial: a value crossing a varint/sequence width boundary or a payload packet, a byte string that decodes, a token with >=2 or IPv6 addresses, an ack set with >=3 ranges. Distinct = distinct hash of the decoded case.".into()
    }
    fn assumptions(&self) -> Vec<String> {
        vec![
            "values are those the library can build: varints <= 2^62-1, slice payload 1..1200, num_slices 1..10^6, sorted non-adjacent ack ranges".into(),
            "ack equality is demanded only while the received set never had more than 64 ranges; beyond that: subset of the model, contains its newest sequence, at most 64 ranges".into(),
        ]
    }
    fn pbt(&self, tier: Tier) -> PbtCfg {
        PbtCfg { cases: tier.pick(1_000_000, 20_000_000), max_len: 1400, shrink_ms: 120_000 }
    }
    fn required_labels(&self) -> Vec<&'static str> {
        vec!["renet_value", "bytes_decoded", "netcode_value", "request_bytes_decoded", "token_value", "token_bytes_decoded", "ranges>=3", "over64"]
    }
    fn run_choices(&self, ctx: &mut Ctx) -> Outcome {
        let which = ctx.src.weighted(&[4, 4, 3, 1, 2, 2, 3]);
        ctx.op(&which);
        match which {
            0 => self.renet_value(ctx),
            1 => self.renet_bytes(ctx),
            2 => self.netcode_value(ctx),
            3 => self.netcode_request_bytes(ctx),
            4 => self.token_value(ctx),
            5 => self.token_bytes(ctx),
            _ => self.ack_generated(ctx),
        }
    }
    fn enums(&self, _tier: Tier) -> Vec<(&'static str, u64)> {
        vec![("ack_subsets", 3 * 4096 * 4)]
    }
    fn run_enum(&self, _name: &str, index: u64, ctx: &mut Ctx) -> Outcome {
        let mode = index % 4;
        let subset = (index / 4) % 4096;
        let base = UNIVERSE_BASES[(index / (4 * 4096)) as usize % 3];
        let mut items: Vec<u64> = (0..12).filter(|b| subset & (1 << b) != 0).map(|b| base + b).collect();
        perm_order(&mut items, if mode < 2 { mode } else { mode + subset * 7 });
        ctx.op(&(base, subset, mode));
        ctx.note(|| format!("arrival order {:?}", items));
        ack_case(&items, ctx)
    }
}
