//! C03 Message integrity / fragmentation on every channel kind.

use super::simcase::*;
use crate::engine::*;
use crate::sim::driver::*;
use crate::sim::world::*;

pub struct C03;

fn spec(tier: Tier) -> SimSpec {
    let mut ops = default_ops();
    ops.max_ops = tier.pick(250, 800);
    ops.ops = [80, 90, 25, 8, 20, 24, 20];
    ops.sizes = [40, 50, 60, 70, 36];
    ops.burst = 10;
    SimSpec {
        cfg: CfgSpec {
            kinds: [5, 2, 2],
            chans: (1, 4),
            mems: MEMS_LARGE,
            budgets: &[60_000, 1_000_000, 20_000, 6_000],
            resends: RESENDS,
            clients: (1, 1),
            must_have: Some(Kind::Unreliable),
        },
        ops,
        oracles: Oracles { content: true, impolite_once: true, ..Default::default() },
        liveness: false,
        quiescence: false,
        quiescence_memory: false,
    }
}

impl Property for C03 {
    fn id(&self) -> &'static str {
        "C03"
    }
    fn level(&self) -> &'static str {
        "fault_enumeration"
    }
    fn rule(&self) -> String {
        "A case = 1-4 channels per direction of all three kinds (at least one Unreliable), several messages per tick (packing, interleaved slices), lengths biased to 0, 1, 1199, 1200, 1201, k*1200, k*1200+-1 and large, per-packet faults (drop/duplicate/delay/permuted delivery). Messages carry a self-describing header and position-dependent content. Oracles: every message obtained on (connection, direction, channel) is byte-identical to one submitted there; ordered = prefix, unordered = at most once; unreliable: obtained at most as often as the least-delivered packet carrying a part of it (per-content credits for tiny messages), never with a slice missing. Non-trivial: an unreliable slice was lost, or a boundary length was used together with a duplicated or reordered packet. Distinct = hash of the decoded operation trace.".into()
    }
    fn assumptions(&self) -> Vec<String> {
        vec!["messages shorter than the 16-byte header are compared by content (per-content counts)".into()]
    }
    fn pbt(&self, tier: Tier) -> PbtCfg {
        PbtCfg { cases: tier.pick(120_000, 2_000_000), max_len: tier.pick(1500, 5000), shrink_ms: 120_000 }
    }
    fn required_labels(&self) -> Vec<&'static str> {
        vec!["unrel_slice_lost", "unrel_slice_sent", "boundary_len", "packed_small", "data_dup", "reordered", "tiny_msg"]
    }
    fn run_choices(&self, ctx: &mut Ctx) -> Outcome {
        let s = spec(ctx.tier);
        run_sim(ctx, &s, &mut no_step, &mut |_w, ctx, _r| {
            if ctx.has("unrel_slice_lost") || (ctx.has("boundary_len") && (ctx.has("data_dup") || ctx.has("reordered"))) {
                ctx.nontrivial = true;
            }
            Ok(())
        })
    }
}
