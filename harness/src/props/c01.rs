//! C01 ReliableOrdered: exactly-once, in-order, intact delivery under any faults; bounded liveness.

use super::simcase::*;
use crate::engine::*;
use crate::sim::driver::*;
use crate::sim::world::*;

pub struct C01;

fn spec(tier: Tier) -> SimSpec {
    let mut ops = default_ops();
    ops.max_ops = tier.pick(300, 900);
    SimSpec {
        cfg: CfgSpec {
            kinds: [2, 5, 2],
            chans: (1, 3),
            mems: MEMS_LARGE,
            budgets: BUDGETS_WIDE,
            resends: RESENDS,
            clients: (1, 1),
            must_have: Some(Kind::Ordered),
        },
        ops,
        oracles: Oracles { content: true, content_kinds: vec![Kind::Ordered], impolite_once: true, ..Default::default() },
        liveness: true,
        quiescence: false,
        quiescence_memory: false,
    }
}

impl Property for C01 {
    fn id(&self) -> &'static str {
        "C01"
    }
    fn level(&self) -> &'static str {
        "fault_enumeration"
    }
    fn rule(&self) -> String {
        "A case = generated channel configuration (1-3 channels per direction, at least one ReliableOrdered, budgets 1200 B..unbounded, resend 20-400 ms) + a free interleaving of send/receive/update/flush/deliver operations with a fault decision per emitted packet (deliver / drop / duplicate x1-3 / delay 30-3100 ms, acks and data independently), followed by a fault-free heal phase. Oracle after every receive: the messages obtained are a byte-identical prefix of those submitted; after healing everything is obtained within 8+4*ceil(units/floor(budget/1200)) ticks. Non-trivial: >=1 data packet dropped or delayed AND >=1 ack packet lost, duplicated or delayed AND >=1 sliced message submitted. Distinct = hash of the decoded operation trace.".into()
    }
    fn assumptions(&self) -> Vec<String> {
        vec![
            "liveness is asserted only when the tick budget is at least one slice (1200 B) and neither side was disconnected (memory disconnects are C09's subject)".into(),
            "the application only submits what can_send_message allows, except that in about half of the cases it insists once on a reliable message that was refused (documented: the connection is disconnected; a connection that stays up has accepted the message)".into(),
            "both endpoints are updated with the same durations".into(),
        ]
    }
    fn pbt(&self, tier: Tier) -> PbtCfg {
        PbtCfg { cases: tier.pick(120_000, 2_000_000), max_len: tier.pick(1500, 5000), shrink_ms: 120_000 }
    }
    fn required_labels(&self) -> Vec<&'static str> {
        vec!["data_lost", "ack_lost", "ack_dup", "sliced_sent", "reordered", "healed_complete", "boundary_len", "deliver_one"]
    }
    fn run_choices(&self, ctx: &mut Ctx) -> Outcome {
        let s = spec(ctx.tier);
        run_sim(ctx, &s, &mut no_step, &mut |_w, ctx, _r| {
            if (ctx.has("data_lost") || ctx.has("data_delayed")) && (ctx.has("ack_lost") || ctx.has("ack_dup") || ctx.has("ack_delayed")) && ctx.has("sliced_sent") {
                ctx.nontrivial = true;
            }
            Ok(())
        })
    }
}
