//! One module per property.
use crate::engine::Property;

pub mod c16;

pub fn all() -> Vec<Box<dyn Property>> {
    vec![Box::new(c16::C16)]
}

pub fn by_id(id: &str) -> Option<Box<dyn Property>> {
    all().into_iter().find(|p| p.id() == id)
}
