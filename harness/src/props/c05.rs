//! C05 Only a valid, unexpired, untampered connect token from its own address connects.

use crate::engine::*;
use crate::sim::net::*;
use renetcode::verif::Packet as NPacket;
use std::collections::HashMap;
use std::net::SocketAddr;
use std::time::Duration;

pub struct C05;

#[derive(Clone, Copy, Debug, PartialEq, Eq, Hash)]
enum Flaw {
    None,
    ForeignKey,
    ForeignProtocol,
    WrongHost,
    MixedHost,
}

struct Tok {
    client_id: u64,
    user: u64,
    flaw: Flaw,
    expire_ts: u64,
    /// first address whose request with this token was answered by server 0
    first_addr: Option<SocketAddr>,
}

#[derive(Clone, Debug)]
enum Meta {
    Request { tok: usize, modified: bool },
    Response { echo_seq: Option<u64>, modified: bool },
    Other,
}

#[derive(Debug, Hash)]
enum Op {
    Honest { client: usize, lost_up: bool, lost_down: bool },
    AdvanceMs(u64),
    StolenRequest { of: usize, from: usize },
    CorruptRequest { of: usize, field: &'static str },
    CrossResponse { pending: usize, challenge_of_tok: usize, same_server: bool },
    ReplayResponse { of: usize, from: usize },
    MutatedResponse { of: usize },
    Kick { id: u64 },
}

struct Model {
    toks: Vec<Tok>,
    client_tok: Vec<usize>,
    /// address -> token of the latest request from that address that server 0 answered with a challenge, and whether the token was unexpired then
    challenged: HashMap<SocketAddr, Vec<usize>>,
    /// challenge sequence -> (server, client id it was issued for)
    issued: HashMap<(usize, u64), u64>,
    connections: u32,
}

impl Model {
    /// The oracle: every ClientConnected of server 0 must be explained by the history.
    fn on_connected(&mut self, nw: &NetWorld, client_id: u64, addr: SocketAddr, ud: &[u8], trigger: &Meta, from: SocketAddr) -> Outcome {
        self.connections += 1;
        let Meta::Response { echo_seq, modified } = trigger else {
            return Err(Fail::new("connected_without_response", format!("client {client_id} reported connected by a datagram that is not a response ({trigger:?})")));
        };
        if *modified {
            return Err(Fail::new("connected_by_modified_response", format!("client {client_id} reported connected by a modified response datagram")));
        }
        if from != addr {
            return Err(Fail::new("connected_other_address", format!("ClientConnected names address {addr}, the response came from {from}")));
        }
        let Some(cands) = self.challenged.get(&addr) else {
            return Err(Fail::new("connected_without_request", format!("client {client_id} reported connected from {addr}, which never got a challenge for an unmodified request")));
        };
        // the history must contain a challenged, unmodified request from this address whose token seals exactly this identity
        let now_s = nw.servers[0].server.current_time().as_secs();
        let explains = |t: &Tok| (t.flaw == Flaw::None || t.flaw == Flaw::MixedHost) && now_s <= t.expire_ts && t.first_addr == Some(addr) && t.client_id == client_id && ud == &user_data(t.user)[..];
        if !cands.iter().any(|&t| explains(&self.toks[t])) {
            let seen: Vec<String> = cands.iter().map(|&t| { let k = &self.toks[t]; format!("token#{t}(id {}, user data #{}, {:?}, expires {}, first used from {:?})", k.client_id, k.user, k.flaw, k.expire_ts, k.first_addr) }).collect();
            let same_id = cands.iter().any(|&t| self.toks[t].client_id == client_id);
            return Err(Fail::new(
                if same_id { "connected_identity_mismatch" } else { "connected_unexplained" },
                format!("ClientConnected reports client id {client_id} / user data #{:?} from {addr} at server second {now_s}; the challenged requests from that address carried: {seen:?}", which_user(ud)),
            ));
        }
        match echo_seq.and_then(|s| self.issued.get(&(0, s))) {
            Some(&issued_for) if issued_for == client_id => {}
            other => {
                return Err(Fail::new(
                    "connected_by_foreign_challenge",
                    format!("client {client_id} connected by a response echoing challenge {echo_seq:?}, which this server issued for {other:?}"),
                ))
            }
        }
        // lookups agree
        let s = &nw.servers[0].server;
        if s.client_addr(client_id) != Some(addr) || s.user_data(client_id).map(|u| u.to_vec()) != Some(ud.to_vec()) || !s.clients_id().contains(&client_id) {
            return Err(Fail::new("lookup_mismatch", format!("client_addr / user_data / clients_id disagree with the ClientConnected report for {client_id}")));
        }
        Ok(())
    }
}

fn which_user(ud: &[u8]) -> Option<u64> {
    (0..16).find(|&u| ud == &user_data(u)[..])
}

impl Property for C05 {
    fn id(&self) -> &'static str {
        "C05"
    }
    fn level(&self) -> &'static str {
        "exploration"
    }
    fn rule(&self) -> String {
        "A case = secure server 0 (plus server 1 with the same private key and protocol but its own challenge key), 3-8 identities/addresses (server client limit 1-4, so tables sized from it fill up) holding tokens that are good, sealed with a foreign key, for a foreign protocol id (one bit away from the server's, in any byte), listing only wrong hosts (another host, or near misses: a public address's ip with another port, the ip of one public address with the port of the other; the server has an IPv4 and an IPv6 public address with different ports), a mixed host list or only the server's second public address (valid), with expiry 1-4 s or 600 s; honest handshake steps with loss in either direction; the server clock stepped by 1-1500 ms around every expiry second; adversarial steps: a request presented from another address (stolen token), single-field corruptions of a request (a bit of the sealed token, the public expiry +-1 / +1000, protocol id - including the public field of a foreign-protocol token rewritten to the server's id -, version, nonce), cross-use - a response from a pending address sealed with that address's own key but echoing a challenge issued to another session (other id, same id with other user data, other server) -, a response replayed from another address, bit-flipped responses; the application removing a connected client (a full server, whose denial of a good request also counts as the token's first use, has room again). Oracle at every ClientConnected{id, addr, user_data} (and for client_addr / user_data / clients_id right after): the trigger was an unmodified response from addr; addr had been challenged for an unmodified request whose token is sealed under this server's key and protocol, lists a public address, was unexpired (server second <= expiry when connecting, < expiry when requesting) and was first used from addr; id and user data are exactly those sealed in that token; the echoed challenge was issued by this server for id. Non-trivial: >= 1 connection established and >= 1 adversarial step after a challenge existed. Distinct = hash of the decoded operation trace.".into()
    }
    fn assumptions(&self) -> Vec<String> {
        vec!["'first used from' = the first address whose request with that token this server answered".into(), "the server is updated before every presentation, so expiry is judged against its current second".into()]
    }
    fn pbt(&self, tier: Tier) -> PbtCfg {
        PbtCfg { cases: tier.pick(300_000, 5_000_000), max_len: tier.pick(500, 1500), shrink_ms: 120_000 }
    }
    fn required_labels(&self) -> Vec<&'static str> {
        vec!["connected", "stolen_request", "corrupt_request", "cross_response", "cross_same_id", "cross_other_server", "replay_response", "expired_at_request", "near_expiry", "bad_token_request", "stolen_request_small_server", "protocol_rewritten", "second_public_address", "denied_binds_token", "kick"]
    }
    fn run_choices(&self, ctx: &mut Ctx) -> Outcome {
        let seed16 = ctx.src.u16() as u64;
        let idb = id_base(seed16);
        let mut nw = NetWorld::new(seed16);
        // small client limits too: tables sized from the limit (token entries, slots) fill up within a case
        let max0 = ctx.src.pick(&[4usize, 4, 1, 2, 3]);
        nw.servers.push(mk_server(0, 1, PROTO, max0, nw.now, true));
        nw.servers.push(mk_server(1, 1, PROTO, 4, nw.now, true));
        let n = 3 + ctx.src.below(6);
        let mut m = Model { toks: vec![], client_tok: vec![], challenged: HashMap::new(), issued: HashMap::new(), connections: 0 };
        let now_s = nw.now.as_secs();
        for i in 0..n {
            let flaw = [Flaw::None, Flaw::ForeignKey, Flaw::ForeignProtocol, Flaw::WrongHost, Flaw::MixedHost][ctx.src.weighted(&[12, 2, 2, 2, 3])];
            // identities collide on purpose: same id with other user data
            let client_id = idb + 200 + ctx.src.below(4) as u64;
            let user = i as u64;
            let expire_seconds = if ctx.src.chance(90) { 1 + ctx.src.below(4) as u64 } else { 600 };
            let second_server = ctx.src.chance(50);
            let addrs = match flaw {
                // another host altogether, or a near miss: same ip as a public address with another port, ip of one public address with
                // the port of the other
                Flaw::WrongHost => {
                    let nm = near_miss_addrs(0);
                    match ctx.src.below(4) {
                        0 => vec![server_addr(5)],
                        1 => vec![nm[ctx.src.below(4)]],
                        2 => nm.to_vec(),
                        _ => vec![server_addr(5), nm[ctx.src.below(4)]],
                    }
                }
                Flaw::MixedHost => vec![server_addr(5), server_addr(0)],
                _ if second_server => vec![server_addr(1), server_addr(0)],
                // the server's second public address alone is as good as the first
                _ if ctx.src.chance(40) => {
                    ctx.label("second_public_address");
                    vec![server_alt_addr(0)]
                }
                _ => vec![server_addr(0)],
            };
            let spec = TokenSpec { client_id, user, expire_seconds, timeout: 3, addrs, key: if flaw == Flaw::ForeignKey { key(9) } else { key(1) }, protocol: if flaw == Flaw::ForeignProtocol { PROTO ^ (1u64 << ctx.src.pick(&[1u32, 0, 8, 24, 40, 56, 63, 60])) } else { PROTO } };
            let t = nw.mint(&spec);
            nw.add_client(t, client_addr(i), user);
            m.toks.push(Tok { client_id, user, flaw, expire_ts: now_s + expire_seconds, first_addr: None });
            m.client_tok.push(i);
            ctx.op(&(i, client_id, flaw, expire_seconds, second_server));
        }
        let max_ops = ctx.tier.pick(80, 250);
        let mut ops = 0;
        let mut adversarial_after_challenge = false;

        // present bytes at server 0 and run the oracle
        fn present(nw: &mut NetWorld, m: &mut Model, ctx: &mut Ctx, from: SocketAddr, bytes: &[u8], meta: Meta) -> Result<SrvOut, Fail> {
            let out = nw.server_recv(0, from, bytes);
            match &out {
                SrvOut::Send { did, .. } => {
                    if nw.pool[*did].kind == 1 {
                        // denied because the server is full: an answer all the same, so the token is used from this address from now on
                        if let Meta::Request { tok, modified: false } = &meta {
                            let now_s = nw.servers[0].server.current_time().as_secs();
                            let t = &mut m.toks[*tok];
                            if (t.flaw == Flaw::None || t.flaw == Flaw::MixedHost) && now_s < t.expire_ts && t.first_addr.is_none() {
                                t.first_addr = Some(from);
                                ctx.label("denied_binds_token");
                            }
                        }
                    }
                    if nw.pool[*did].kind == 2 {
                        // a challenge: remember for whom it was issued (decode with the token's key) and the address binding
                        if let Meta::Request { tok, modified } = &meta {
                            let cl = m.client_tok.iter().position(|t| t == tok).unwrap();
                            let k = nw.clients[cl].token.server_to_client_key;
                            if let Some((seq, _)) = peek_challenge(&nw.pool[*did].bytes, PROTO, &k) {
                                m.issued.insert((0, seq), m.toks[*tok].client_id);
                            }
                            let t = &mut m.toks[*tok];
                            if *modified {
                                return Err(Fail::new("challenge_for_modified_request", format!("a modified request (token #{tok}) was answered with a challenge")));
                            }
                            if t.flaw != Flaw::None && t.flaw != Flaw::MixedHost {
                                return Err(Fail::new("challenge_for_bad_token", format!("a request whose token is {:?} was answered with a challenge", t.flaw)));
                            }
                            let now_s = nw.servers[0].server.current_time().as_secs();
                            if now_s >= t.expire_ts {
                                return Err(Fail::new("challenge_for_expired_token", format!("a request presented at server second {now_s} with a token expiring at {} was answered with a challenge", t.expire_ts)));
                            }
                            if t.first_addr.is_none() {
                                t.first_addr = Some(from);
                            } else if t.first_addr != Some(from) {
                                return Err(Fail::new("challenge_for_stolen_token", format!("token #{tok} first used from {:?} was answered with a challenge at {from}", t.first_addr)));
                            }
                            m.challenged.entry(from).or_default().push(*tok);
                            ctx.label("challenged");
                        } else {
                            return Err(Fail::new("challenge_without_request", format!("a challenge was sent in answer to {meta:?}")));
                        }
                    }
                }
                SrvOut::Connected { client_id, addr, user_data, .. } => {
                    ctx.label("connected");
                    m.on_connected(nw, *client_id, *addr, user_data, &meta, from)?;
                }
                _ => {}
            }
            Ok(out)
        }

        while !ctx.src.exhausted() && ops < max_ops {
            ops += 1;
            let op = match ctx.src.weighted(&[22, 8, 5, 6, 8, 3, 3, 2]) {
                0 => {
                    let c = ctx.src.below(n);
                    let lost_up = ctx.src.chance(30);
                    let lost_down = ctx.src.chance(30);
                    let dt = Duration::from_millis(ctx.src.pick(&[260u64, 50, 120]));
                    if let Some(did) = nw.client_update(c, dt) {
                        let d = nw.pool[did].clone();
                        if !lost_up {
                            if d.to == server_addr(0) || d.to == server_alt_addr(0) {
                                let t = m.client_tok[c];
                                let meta = match d.kind {
                                    0 => Meta::Request { tok: t, modified: false },
                                    3 => Meta::Response { echo_seq: peek_response(&d.bytes, nw.clients[c].token.protocol_id, &nw.clients[c].token.client_to_server_key).map(|r| r.0), modified: false },
                                    _ => Meta::Other,
                                };
                                if d.kind == 0 {
                                    let tok = &m.toks[t];
                                    if tok.flaw != Flaw::None && tok.flaw != Flaw::MixedHost {
                                        ctx.label("bad_token_request");
                                    }
                                    let now_s = nw.servers[0].server.current_time().as_secs();
                                    if now_s >= tok.expire_ts {
                                        ctx.label("expired_at_request");
                                    } else if tok.expire_ts - now_s <= 1 {
                                        ctx.label("near_expiry");
                                    }
                                }
                                nw.pool[did].presented += 1;
                                let out = present(&mut nw, &mut m, ctx, d.src, &d.bytes, meta)?;
                                if !lost_down {
                                    if let SrvOut::Send { did: r, .. } | SrvOut::Connected { did: r, .. } = out {
                                        let b = nw.pool[r].bytes.clone();
                                        nw.client_recv(c, &b);
                                    }
                                }
                            } else if d.to == server_addr(1) {
                                // the other server of the cluster answers honestly; its challenges are recorded as foreign
                                let out = nw.server_recv(1, d.src, &d.bytes);
                                if let SrvOut::Send { did: r, .. } | SrvOut::Connected { did: r, .. } = out {
                                    let b = nw.pool[r].bytes.clone();
                                    if nw.pool[r].kind == 2 {
                                        if let Some((seq, _)) = peek_challenge(&b, PROTO, &nw.clients[c].token.server_to_client_key) {
                                            m.issued.insert((1, seq), m.toks[m.client_tok[c]].client_id);
                                        }
                                    }
                                    if !lost_down {
                                        nw.client_recv(c, &b);
                                    }
                                }
                            }
                        }
                    }
                    Op::Honest { client: c, lost_up, lost_down }
                }
                1 => {
                    let ms = ctx.src.pick(&[1000u64, 1, 250, 499, 500, 999, 1001, 1500]);
                    let dt = Duration::from_millis(ms);
                    nw.now += dt;
                    nw.server_advance(0, dt);
                    nw.server_advance(1, dt);
                    Op::AdvanceMs(ms)
                }
                2 => {
                    // a request presented from another address
                    let reqs: Vec<usize> = nw.pool.iter().enumerate().filter(|(_, d)| d.kind == 0 && matches!(d.from, Emitter::Client(_))).map(|(i, _)| i).collect();
                    if reqs.is_empty() {
                        continue;
                    }
                    let i = reqs[ctx.src.below(reqs.len())];
                    let d = nw.pool[i].clone();
                    let Emitter::Client(owner) = d.from else { continue };
                    let from = ctx.src.below(n + 1);
                    if from == owner {
                        continue;
                    }
                    ctx.label("stolen_request");
                    if max0 < 4 {
                        ctx.label("stolen_request_small_server");
                    }
                    adversarial_after_challenge |= !m.challenged.is_empty();
                    let tk = m.client_tok[owner];
                    present(&mut nw, &mut m, ctx, client_addr(from), &d.bytes, Meta::Request { tok: tk, modified: false })?;
                    Op::StolenRequest { of: owner, from }
                }
                3 => {
                    let reqs: Vec<usize> = nw.pool.iter().enumerate().filter(|(_, d)| d.kind == 0 && matches!(d.from, Emitter::Client(_))).map(|(i, _)| i).collect();
                    if reqs.is_empty() {
                        continue;
                    }
                    let i = reqs[ctx.src.below(reqs.len())];
                    let d = nw.pool[i].clone();
                    let Emitter::Client(owner) = d.from else { continue };
                    let mut b = d.bytes.clone();
                    // layout: prefix(1) version(13) protocol(8) expire(8) xnonce(24) data(1024)
                    let field = match ctx.src.below(6) {
                        0 => {
                            let i = 54 + ctx.src.below(1024);
                            b[i] ^= 1 << ctx.src.below(8);
                            "sealed_token_bit"
                        }
                        1 => {
                            let mut e = u64::from_le_bytes(b[22..30].try_into().unwrap());
                            e = match ctx.src.below(3) {
                                0 => e + 1,
                                1 => e.wrapping_sub(1),
                                _ => e + 1000,
                            };
                            b[22..30].copy_from_slice(&e.to_le_bytes());
                            "public_expiry"
                        }
                        2 => {
                            if nw.clients[owner].token.protocol_id != PROTO && ctx.src.chance(160) {
                                // a token sealed for another protocol id (one bit away, any byte) with the public field rewritten to ours
                                b[14..22].copy_from_slice(&PROTO.to_le_bytes());
                                ctx.label("protocol_rewritten");
                            } else {
                                b[14 + ctx.src.below(8)] ^= 1 << ctx.src.below(8);
                            }
                            "protocol_id"
                        }
                        3 => {
                            b[1 + ctx.src.below(13)] ^= 1 << ctx.src.below(8);
                            "version"
                        }
                        4 => {
                            b[30 + ctx.src.below(24)] ^= 1 << ctx.src.below(8);
                            "nonce"
                        }
                        _ => {
                            // last 16 bytes of the sealed token = its MAC (also the key of the token-address table)
                            let i = b.len() - 1 - ctx.src.below(16);
                            b[i] ^= 1 << ctx.src.below(8);
                            "token_mac"
                        }
                    };
                    ctx.label("corrupt_request");
                    adversarial_after_challenge |= !m.challenged.is_empty();
                    let tk = m.client_tok[owner];
                    present(&mut nw, &mut m, ctx, d.src, &b, Meta::Request { tok: tk, modified: true })?;
                    Op::CorruptRequest { of: owner, field }
                }
                4 => {
                    // cross-use: a pending address answers with its own key but echoes a challenge issued to someone else
                    let pend = nw.servers[0].server.verif_pending_addrs();
                    if pend.is_empty() || m.issued.is_empty() {
                        continue;
                    }
                    let pa = pend[ctx.src.below(pend.len())];
                    let Some(p) = (0..n).find(|&i| client_addr(i) == pa) else { continue };
                    // challenges seen by the harness: every challenge datagram in the pool, decodable with its addressee's key
                    let chals: Vec<(usize, usize, u64, [u8; 300])> = nw
                        .pool
                        .iter()
                        .filter(|d| d.kind == 2)
                        .filter_map(|d| {
                            let Emitter::Server(s) = d.from else { return None };
                            let c = (0..n).find(|&i| client_addr(i) == d.to)?;
                            let (seq, data) = peek_challenge(&d.bytes, PROTO, &nw.clients[c].token.server_to_client_key)?;
                            Some((s, c, seq, data))
                        })
                        .collect();
                    let others: Vec<&(usize, usize, u64, [u8; 300])> = chals.iter().filter(|(_, c, _, _)| *c != p).collect();
                    if others.is_empty() {
                        continue;
                    }
                    let (s, c, seq, data) = *others[ctx.src.below(others.len())];
                    let t = &nw.clients[p].token;
                    let b = seal(&NPacket::Response { token_sequence: seq, token_data: data }, PROTO, 5000 + ops as u64, &t.client_to_server_key);
                    ctx.label("cross_response");
                    if m.toks[m.client_tok[c]].client_id == m.toks[m.client_tok[p]].client_id {
                        ctx.label("cross_same_id");
                    }
                    if s != 0 {
                        ctx.label("cross_other_server");
                    }
                    adversarial_after_challenge = true;
                    // the echoed challenge belongs to (server s): only (0, seq) entries can legitimately match
                    let echo = if s == 0 { Some(seq) } else { None };
                    let _ = echo;
                    present(&mut nw, &mut m, ctx, pa, &b, Meta::Response { echo_seq: if s == 0 { Some(seq) } else { Some(u64::MAX - seq) }, modified: false })?;
                    Op::CrossResponse { pending: p, challenge_of_tok: m.client_tok[c], same_server: s == 0 }
                }
                5 => {
                    let resps: Vec<usize> = nw.pool.iter().enumerate().filter(|(_, d)| d.kind == 3 && matches!(d.from, Emitter::Client(_))).map(|(i, _)| i).collect();
                    if resps.is_empty() {
                        continue;
                    }
                    let i = resps[ctx.src.below(resps.len())];
                    let d = nw.pool[i].clone();
                    let Emitter::Client(owner) = d.from else { continue };
                    let from = ctx.src.below(n + 1);
                    if from == owner {
                        continue;
                    }
                    ctx.label("replay_response");
                    adversarial_after_challenge = true;
                    let echo = peek_response(&d.bytes, PROTO, &nw.clients[owner].token.client_to_server_key).map(|r| r.0);
                    present(&mut nw, &mut m, ctx, client_addr(from), &d.bytes, Meta::Response { echo_seq: echo, modified: false })?;
                    Op::ReplayResponse { of: owner, from }
                }
                7 => {
                    // the application removes a connected client: a full server has room again
                    let ids = nw.servers[0].server.clients_id();
                    if ids.is_empty() {
                        continue;
                    }
                    let id = ids[ctx.src.below(ids.len())];
                    nw.server_disconnect(0, id);
                    ctx.label("kick");
                    Op::Kick { id }
                }
                _ => {
                    let resps: Vec<usize> = nw.pool.iter().enumerate().filter(|(_, d)| d.kind == 3 && matches!(d.from, Emitter::Client(_))).map(|(i, _)| i).collect();
                    if resps.is_empty() {
                        continue;
                    }
                    let i = resps[ctx.src.below(resps.len())];
                    let d = nw.pool[i].clone();
                    let Emitter::Client(owner) = d.from else { continue };
                    let (b, mu) = mutate(&mut ctx.src, &d.bytes);
                    if mu == Mutation::None {
                        continue;
                    }
                    adversarial_after_challenge = true;
                    present(&mut nw, &mut m, ctx, d.src, &b, Meta::Response { echo_seq: None, modified: true })?;
                    Op::MutatedResponse { of: owner }
                }
            };
            ctx.op(&op);
        }
        if m.connections > 0 && adversarial_after_challenge {
            ctx.nontrivial = true;
        }
        Ok(())
    }
}
