//! C10 Netcode connection table: unique ids, unique addresses, bounded by max_clients.

use crate::engine::*;
use crate::sim::net::*;
use std::collections::{BTreeMap, BTreeSet};
use std::net::SocketAddr;
use std::time::Duration;

pub struct C10;

struct Session {
    addr: SocketAddr,
    ud: Vec<u8>,
    client: Option<usize>,
}

struct Model {
    /// number of sessions each client object's datagrams have opened so far (a replayed handshake re-opens one with the same keys)
    generation: BTreeMap<usize, u32>,
    /// pool datagram -> generation of its emitter's session when it was first presented from its own address
    first_seen_gen: BTreeMap<usize, u32>,
    open: BTreeMap<u64, Session>,
    max_clients: usize,
    /// the limit was lowered at run time in this case (the statement's bound on the count does not apply then)
    ever_lowered: bool,
    events: u32,
    refused_when_full: u32,
}

#[derive(Debug, Hash)]
enum Op {
    Honest { client: usize, lost_up: bool, lost_down: bool },
    Tick { ms: u64, split: bool, lost: Vec<bool> },
    ClientDisconnect { client: usize, delivered: bool },
    ServerDisconnect { id: u64 },
    Replay { of: usize, from_own: bool },
    RaiseLimit { to: usize },
    Payload { client: usize },
    Spawn { client: usize },
    CrossResponse { at: usize, challenge_of: usize },
}

impl Model {
    /// Fold one server output into the model and check the event discipline.
    fn on_out(&mut self, nw: &NetWorld, out: &SrvOut, trigger: Option<(usize, Emitter, bool)>, from: Option<SocketAddr>, connected_before: usize) -> Outcome {
        match out {
            SrvOut::Connected { client_id, addr, user_data, .. } => {
                self.events += 1;
                if self.open.contains_key(client_id) {
                    return Err(Fail::new("double_connect", format!("ClientConnected for id {client_id} while that id is already connected (no disconnect in between)")));
                }
                if let Some((other, _)) = self.open.iter().find(|(_, s)| s.addr == *addr) {
                    return Err(Fail::new("address_shared", format!("ClientConnected for id {client_id} from {addr}, which is the address of connected id {other}")));
                }
                // the bound is stated for limits that are not lowered at run time: a handshake challenged before a lowering may still
                // complete into a slot above the new limit
                if !self.ever_lowered && connected_before >= self.max_clients {
                    return Err(Fail::new("over_capacity", format!("ClientConnected for id {client_id} while {connected_before} clients were connected and max_clients is {}", self.max_clients)));
                }
                if from != Some(*addr) {
                    return Err(Fail::new("connected_other_address", format!("ClientConnected names {addr}, the datagram came from {from:?}")));
                }
                // identity: the triggering client's token
                let Some((did, Emitter::Client(c), unmodified)) = trigger else {
                    return Err(Fail::new("connected_by_nothing", format!("ClientConnected for id {client_id} not triggered by a client datagram")));
                };
                let _ = did;
                if !unmodified {
                    return Err(Fail::new("connected_by_modified", format!("ClientConnected for id {client_id} triggered by a modified datagram")));
                }
                let ce = &nw.clients[c];
                if ce.client_id != *client_id || user_data[..] != crate::sim::net::user_data(ce.user)[..] || ce.addr != *addr {
                    return Err(Fail::new(
                        "connected_identity_mismatch",
                        format!("ClientConnected reports id {client_id} at {addr}, triggered by a client whose token seals id {} / user #{} at {}", ce.client_id, ce.user, ce.addr),
                    ));
                }
                *self.generation.entry(c).or_insert(0) += 1;
                self.open.insert(*client_id, Session { addr: *addr, ud: user_data.clone(), client: Some(c) });
            }
            SrvOut::Disconnected { client_id, addr, .. } => {
                self.events += 1;
                let Some(s) = self.open.get(client_id) else {
                    return Err(Fail::new("disconnect_without_connect", format!("ClientDisconnected for id {client_id} which is not connected")));
                };
                if s.addr != *addr {
                    return Err(Fail::new("disconnect_wrong_address", format!("ClientDisconnected for id {client_id} names {addr}, it connected from {}", s.addr)));
                }
                // a disconnect caused by a datagram must come from the session's own client, unmodified, kind Disconnect
                if let Some((did, em, unmodified)) = trigger {
                    let ok = unmodified && nw.pool[did].kind == 6 && Some(em) == s.client.map(Emitter::Client) && from == Some(s.addr);
                    if !ok {
                        return Err(Fail::new(
                            "disconnected_by_foreign_datagram",
                            format!("id {client_id} was disconnected by datagram {did} (kind {}, emitted by {em:?}, from {from:?}), which its own client did not send as a disconnect", nw.pool[did].kind),
                        ));
                    }
                }
                self.open.remove(client_id);
            }
            SrvOut::Payload { client_id, .. } => {
                if !self.open.contains_key(client_id) {
                    return Err(Fail::new("payload_without_session", format!("a payload surfaced under id {client_id}, which is not connected")));
                }
            }
            _ => {}
        }
        Ok(())
    }

    fn invariants(&self, nw: &NetWorld) -> Outcome {
        let s = &nw.servers[0].server;
        let ids = s.clients_id();
        let set: BTreeSet<u64> = ids.iter().copied().collect();
        if set.len() != ids.len() {
            return Err(Fail::new("duplicate_ids", format!("clients_id() contains duplicates: {ids:?}")));
        }
        let mut addrs = BTreeSet::new();
        for id in ids.iter() {
            let Some(a) = s.client_addr(*id) else {
                return Err(Fail::new("lookup_mismatch", format!("client_addr({id}) is None for a listed id")));
            };
            if !addrs.insert(a) {
                return Err(Fail::new("duplicate_addresses", format!("two connected clients share address {a}")));
            }
        }
        let it: Vec<u64> = s.clients_id_iter().collect();
        if it != ids || s.clients_slot().len() != ids.len() {
            return Err(Fail::new("count_mismatch", format!("clients_id() = {ids:?}, clients_id_iter() = {it:?}, clients_slot() = {:?}", s.clients_slot())));
        }
        if s.connected_clients() != ids.len() {
            return Err(Fail::new("count_mismatch", format!("connected_clients() = {}, clients_id() has {}", s.connected_clients(), ids.len())));
        }
        // lowering the limit does not disconnect anybody: until enough clients have left, the bound is the number that were connected
        // when it was lowered (it only ever shrinks)
        if !self.ever_lowered && ids.len() > self.max_clients {
            return Err(Fail::new("over_capacity", format!("{} clients connected, max_clients is {}", ids.len(), self.max_clients)));
        }
        let open: BTreeSet<u64> = self.open.keys().copied().collect();
        if open != set {
            return Err(Fail::new("table_vs_events", format!("clients_id() = {set:?} but the event stream says {open:?} are connected")));
        }
        for (id, sess) in self.open.iter() {
            if s.client_addr(*id) != Some(sess.addr) || s.user_data(*id).map(|u| u.to_vec()) != Some(sess.ud.clone()) || !s.is_client_connected(*id) {
                return Err(Fail::new("lookup_mismatch", format!("lookups for id {id} differ from the session that was authenticated for it")));
            }
        }
        Ok(())
    }
}

impl Property for C10 {
    fn id(&self) -> &'static str {
        "C10"
    }
    fn level(&self) -> &'static str {
        "exploration"
    }
    fn rule(&self) -> String {
        "A case = secure server with max_clients 1-4 (raised and lowered at run time in some cases), up to 8 client objects over 4 identities and 5 addresses (several tokens per identity, several clients per address, one token per client object), spawned at any time. Steps: lossy honest handshake steps, server ticks with lossy keep-alive delivery and clock steps up to beyond the timeout, client disconnects (delivered or lost), server.disconnect(id), genuine payloads, replays of any earlier client datagram from its own or another address, responses from a half-open address sealed with one of its own tokens' keys but echoing the challenge issued for another id (must never connect; in half of the cases every token seals the same user data), raising and lowering the limit (the bound on the count is only asserted in cases that never lower it, as the statement says; everything else is asserted always). Oracles after every step: clients_id pairwise distinct, client_addr pairwise distinct, connected_clients == |clients_id| <= max_clients; the outputs ClientConnected / ClientDisconnected alternate per id, a disconnect names the id and address of the open connect, none without one, a connect never happens while the server is full nor for an id or address already connected, its id / address / user data are those of the triggering client's token; a session is ended by a datagram only if that is its own client's unmodified disconnect packet; the set of ids in the table equals the set opened by the event stream; lookups by id return the authenticated session's address and user data; a genuine payload of a session surfaces under its id; generate_payload_packet(id) succeeds exactly for connected ids, is addressed to the authenticated session's address and is sealed with that session's key (probed for one of the four identities at every payload step, connected or not). About a quarter of the server ticks are split as a transport splits them: update(dt), then one or two clients' datagrams, then update_client for every id - so requests and responses also meet sessions that have run into their timeout and are not swept yet. Non-trivial: >= 2 sessions open or half-open at once and >= 1 refused, raced or replayed handshake. Distinct = hash of the decoded operation trace.".into()
    }
    fn assumptions(&self) -> Vec<String> {
        vec!["one token per client object (re-using a token for a second session re-uses its keys; outside the statement)".into(), "lowering max_clients disconnects nobody (set_max_clients changes the limit only)".into()]
    }
    fn pbt(&self, tier: Tier) -> PbtCfg {
        PbtCfg { cases: tier.pick(300_000, 5_000_000), max_len: tier.pick(600, 2000), shrink_ms: 120_000 }
    }
    fn required_labels(&self) -> Vec<&'static str> {
        vec!["two_open", "same_id_two_pending", "same_addr_two_tokens", "full_refused", "timeout_disconnect", "client_disconnect", "server_disconnect", "replay", "limit_raised", "limit_lowered", "payload_ok", "payload_routed", "cross_response", "shared_user_data", "datagrams_inside_tick"]
    }
    fn run_choices(&self, ctx: &mut Ctx) -> Outcome {
        let seed16 = ctx.src.u16() as u64;
        let idb = id_base(seed16);
        let mut nw = NetWorld::new(seed16);
        let max_clients = 1 + ctx.src.below(4);
        // a tenth of the cases run the server in its Unsecure development mode (tokens sealed with the all-zero key, host list unchecked)
        let unsecure = ctx.src.chance(25);
        if unsecure {
            ctx.label("unsecure_server");
        }
        let token_key = if unsecure { [0u8; 32] } else { key(1) };
        nw.servers.push(mk_server(0, 1, PROTO, max_clients, nw.now, !unsecure));
        let mut m = Model { generation: BTreeMap::new(), first_seen_gen: BTreeMap::new(), open: BTreeMap::new(), max_clients, ever_lowered: false, events: 0, refused_when_full: 0 };
        let timeout = ctx.src.pick(&[3i32, 2, 5]);
        ctx.op(&(max_clients, timeout));
        let max_ops = ctx.tier.pick(120, 400);
        let mut ops = 0;
        let mut interesting = false;
        // an application may seal the same user data into every token it mints
        let shared_user_data = ctx.src.chance(50);
        if shared_user_data {
            ctx.label("shared_user_data");
        }
        let spawn = |nw: &mut NetWorld, ctx: &mut Ctx| -> usize {
            let ident = ctx.src.below(4) as u64;
            let addr_i = ctx.src.below(5);
            let user = if shared_user_data { 7 } else { ident * 16 + nw.clients.len() as u64 };
            let t = nw.mint(&TokenSpec { client_id: idb + 300 + ident, user, expire_seconds: 600, timeout, addrs: vec![server_addr(0)], key: token_key, protocol: PROTO });
            nw.add_client(t, client_addr(addr_i), user)
        };
        for _ in 0..2 {
            spawn(&mut nw, ctx);
        }
        while !ctx.src.exhausted() && ops < max_ops {
            ops += 1;
            let n = nw.clients.len();
            let op = match ctx.src.weighted(&[30, 10, 4, 3, 8, 2, 6, 6, 4]) {
                0 => {
                    let c = ctx.src.below(n);
                    let lost_up = ctx.src.chance(30);
                    let lost_down = ctx.src.chance(30);
                    let dt = Duration::from_millis(ctx.src.pick(&[260u64, 60, 130]));
                    let before = nw.servers[0].server.connected_clients();
                    // labels on half-open state
                    let pend = nw.servers[0].server.verif_pending_addrs();
                    if pend.len() + before >= 2 {
                        ctx.label("two_open");
                    }
                    if let Some(did) = nw.client_update(c, dt) {
                        let d = nw.pool[did].clone();
                        if !lost_up {
                            nw.pool[did].presented += 1;
                            m.first_seen_gen.insert(did, m.generation.get(&c).copied().unwrap_or(0));
                            let out = nw.server_recv(0, d.src, &d.bytes);
                            m.on_out(&nw, &out, Some((did, Emitter::Client(c), true)), Some(d.src), before)?;
                            if before >= m.max_clients && (d.kind == 0 || d.kind == 3) {
                                m.refused_when_full += 1;
                                ctx.label("full_refused");
                                interesting = true;
                            }
                            if !lost_down {
                                if let SrvOut::Send { did: r, .. } | SrvOut::Connected { did: r, .. } = &out {
                                    let b = nw.pool[*r].bytes.clone();
                                    nw.client_recv(c, &b);
                                }
                            }
                        }
                    }
                    Op::Honest { client: c, lost_up, lost_down }
                }
                1 => {
                    let ms = ctx.src.pick(&[100u64, 260, 1000, 2100, 3500, 6000]);
                    let dt = Duration::from_millis(ms);
                    nw.now += dt;
                    // a transport's tick is update(dt), then the datagrams waiting in the socket, then update_client for every id: in about a
                    // quarter of the ticks one or two clients' datagrams are processed inside that window (a session that has just run into its
                    // timeout is still in the table then)
                    let split = ctx.src.chance(70);
                    let outs = if split {
                        ctx.label("datagrams_inside_tick");
                        nw.server_advance(0, dt);
                        for _ in 0..1 + ctx.src.below(2) {
                            let c = ctx.src.below(n);
                            let cdt = Duration::from_millis(ctx.src.pick(&[260u64, 60]));
                            let before = nw.servers[0].server.connected_clients();
                            if let Some(did) = nw.client_update(c, cdt) {
                                let d = nw.pool[did].clone();
                                nw.pool[did].presented += 1;
                                m.first_seen_gen.insert(did, m.generation.get(&c).copied().unwrap_or(0));
                                let out = nw.server_recv(0, d.src, &d.bytes);
                                m.on_out(&nw, &out, Some((did, Emitter::Client(c), true)), Some(d.src), before)?;
                                if let SrvOut::Send { did: r, .. } | SrvOut::Connected { did: r, .. } = &out {
                                    let b = nw.pool[*r].bytes.clone();
                                    nw.client_recv(c, &b);
                                }
                            }
                        }
                        let mut outs = vec![];
                        for id in nw.servers[0].server.clients_id() {
                            let o = nw.server_update_client(0, id);
                            if o != SrvOut::None {
                                outs.push(o);
                            }
                        }
                        outs
                    } else {
                        nw.server_tick(0, dt)
                    };
                    let mut lost = vec![];
                    for o in outs {
                        let before = nw.servers[0].server.connected_clients();
                        m.on_out(&nw, &o, None, None, before)?;
                        if let SrvOut::Disconnected { .. } = &o {
                            ctx.label("timeout_disconnect");
                        }
                        let l = ctx.src.chance(40);
                        lost.push(l);
                        if !l {
                            if let SrvOut::Send { did, .. } | SrvOut::Disconnected { did: Some(did), .. } = &o {
                                nw.deliver_to_clients(*did);
                            }
                        }
                    }
                    Op::Tick { ms, split, lost }
                }
                2 => {
                    let c = ctx.src.below(n);
                    let delivered = !ctx.src.chance(60);
                    if nw.clients[c].client.is_connected() {
                        if let Some(did) = nw.client_disconnect(c) {
                            if delivered {
                                let d = nw.pool[did].clone();
                                nw.pool[did].presented += 1;
                                m.first_seen_gen.insert(did, m.generation.get(&c).copied().unwrap_or(0));
                                let before = nw.servers[0].server.connected_clients();
                                let out = nw.server_recv(0, d.src, &d.bytes);
                                m.on_out(&nw, &out, Some((did, Emitter::Client(c), true)), Some(d.src), before)?;
                                ctx.label("client_disconnect");
                            }
                        }
                    }
                    Op::ClientDisconnect { client: c, delivered }
                }
                3 => {
                    let id = idb + 300 + ctx.src.below(4) as u64;
                    let before = nw.servers[0].server.connected_clients();
                    let was = m.open.contains_key(&id);
                    let out = nw.server_disconnect(0, id);
                    if was != matches!(out, SrvOut::Disconnected { .. }) {
                        return Err(Fail::new("server_disconnect_result", format!("server.disconnect({id}) returned {out:?} while the id was {}connected", if was { "" } else { "not " })));
                    }
                    m.on_out(&nw, &out, None, None, before)?;
                    if was {
                        ctx.label("server_disconnect");
                        if let SrvOut::Disconnected { did: Some(did), .. } = &out {
                            if !ctx.src.chance(60) {
                                nw.deliver_to_clients(*did);
                            }
                        }
                    }
                    Op::ServerDisconnect { id }
                }
                4 => {
                    // replay any earlier client datagram, from its own or another address
                    let cands: Vec<usize> = nw.pool.iter().enumerate().filter(|(_, d)| matches!(d.from, Emitter::Client(_))).map(|(i, _)| i).collect();
                    if cands.is_empty() {
                        continue;
                    }
                    let i = cands[ctx.src.below(cands.len())];
                    let d = nw.pool[i].clone();
                    let from_own = ctx.src.chance(180);
                    let from = if from_own { d.src } else { client_addr(ctx.src.below(6)) };
                    let before = nw.servers[0].server.connected_clients();
                    // 'presented' counts presentations from the datagram's own source address only
                    let fresh = nw.pool[i].presented == 0;
                    if from == d.src {
                        nw.pool[i].presented += 1;
                        m.first_seen_gen.entry(i).or_insert(match d.from {
                            Emitter::Client(c) => m.generation.get(&c).copied().unwrap_or(0),
                            _ => 0,
                        });
                    }
                    let emitter_gen = match d.from {
                        Emitter::Client(c) => m.generation.get(&c).copied().unwrap_or(0),
                        _ => 0,
                    };
                    let same_session = m.first_seen_gen.get(&i).copied() == Some(emitter_gen);
                    let out = nw.server_recv(0, from, &d.bytes);
                    // a datagram that was never delivered before is simply late, not a replay
                    m.on_out(&nw, &out, Some((i, d.from, true)), Some(from), before)?;
                    if !fresh && from == d.src {
                        ctx.label("replay");
                        interesting = true;
                        // within one server-side session a payload / disconnect datagram is accepted at most once
                        // (a replayed handshake that re-opens a session with the same token is token re-use: not judged here)
                        if same_session && matches!(out, SrvOut::Payload { .. } | SrvOut::Disconnected { .. }) && matches!(d.kind, 5 | 6) {
                            return Err(Fail::new("replay_accepted", format!("a replayed datagram (kind {}) produced {out:?}", d.kind)));
                        }
                    }
                    // the owner gets the reply only if it came from its own address
                    if from_own {
                        if let (Emitter::Client(c), SrvOut::Send { did: r, .. } | SrvOut::Connected { did: r, .. }) = (d.from, &out) {
                            let b = nw.pool[*r].bytes.clone();
                            nw.client_recv(c, &b);
                        }
                    }
                    Op::Replay { of: i, from_own }
                }
                5 => {
                    // raised, or lowered (also below the number of connected clients and below occupied slots: nobody is disconnected
                    // by that, new handshakes are refused until enough clients have left)
                    let lower = m.max_clients > 1 && ctx.src.chance(90);
                    let to = if lower { 1 + ctx.src.below(m.max_clients - 1) } else { (m.max_clients + 1 + ctx.src.below(2)).min(6) };
                    let connected_now = nw.servers[0].server.connected_clients();
                    nw.servers[0].server.set_max_clients(to);
                    if nw.servers[0].server.max_clients() != to {
                        return Err(Fail::new("max_clients_not_set", "set_max_clients did not change max_clients()"));
                    }
                    if nw.servers[0].server.connected_clients() != connected_now {
                        return Err(Fail::new("limit_change_dropped_clients", format!("set_max_clients({to}) changed the number of connected clients from {connected_now} to {}", nw.servers[0].server.connected_clients())));
                    }
                    m.max_clients = to;
                    if lower {
                        m.ever_lowered = true;
                        ctx.label("limit_lowered");
                    } else {
                        ctx.label("limit_raised");
                    }
                    Op::RaiseLimit { to }
                }
                6 => {
                    let c = ctx.src.below(n);
                    // payload routing by id, server -> client: for one of the four identities (connected or not) the server is asked for
                    // a payload datagram; it must exist exactly if the id is connected, be addressed to the authenticated session's
                    // address and be sealed for that session
                    {
                        let probe = idb + 300 + (c % 4) as u64;
                        let pmsg = vec![0xA0 | (probe as u8 & 3); 7 + ops % 9];
                        match (nw.server_payload(0, probe, &pmsg), m.open.get(&probe)) {
                            (Ok(did), Some(sess)) => {
                                let d = nw.pool[did].clone();
                                if d.to != sess.addr {
                                    return Err(Fail::new("payload_routed_to_wrong_address", format!("generate_payload_packet({probe}) is addressed to {} but the session authenticated for that id lives at {}", d.to, sess.addr)));
                                }
                                if let Some(owner) = sess.client {
                                    let mut b = d.bytes.clone();
                                    match peek(&mut b, PROTO, &nw.clients[owner].token.server_to_client_key) {
                                        Some((_, renetcode::verif::Packet::Payload(p))) if p == &pmsg[..] => ctx.label("payload_routed"),
                                        _ => {
                                            return Err(Fail::new("payload_sealed_for_another_session", format!("generate_payload_packet({probe}) produced a datagram the session authenticated for that id (client object {owner}) cannot open")));
                                        }
                                    }
                                }
                                nw.deliver_to_clients(did);
                            }
                            (Ok(did), None) => {
                                return Err(Fail::new("payload_for_unknown_id", format!("generate_payload_packet({probe}) produced a datagram for {} although that id is not connected", nw.pool[did].to)));
                            }
                            (Err(e), Some(sess)) => {
                                return Err(Fail::new("payload_refused_for_connected_id", format!("generate_payload_packet({probe}) failed ({e}) although the id is connected at {}", sess.addr)));
                            }
                            (Err(_), None) => {}
                        }
                    }
                    if nw.clients[c].client.is_connected() {
                        let msg = vec![c as u8; 5 + ctx.src.below(20)];
                        if let Ok(did) = nw.client_payload(c, &msg) {
                            let d = nw.pool[did].clone();
                            nw.pool[did].presented += 1;
                            m.first_seen_gen.insert(did, m.generation.get(&c).copied().unwrap_or(0));
                            let before = nw.servers[0].server.connected_clients();
                            let out = nw.server_recv(0, d.src, &d.bytes);
                            m.on_out(&nw, &out, Some((did, Emitter::Client(c), true)), Some(d.src), before)?;
                            // if the server still holds this client's session, the payload surfaces under its id
                            let id = nw.clients[c].client_id;
                            let holds = m.open.get(&id).map(|s| s.client == Some(c)).unwrap_or(false);
                            match (&out, holds) {
                                (SrvOut::Payload { client_id, payload }, true) if *client_id == id && *payload == msg => ctx.label("payload_ok"),
                                (SrvOut::Payload { client_id, .. }, _) => {
                                    return Err(Fail::new("payload_misrouted", format!("payload of client object {c} (id {id}, session held: {holds}) surfaced under id {client_id}")));
                                }
                                (other, true) => {
                                    return Err(Fail::new("payload_lost", format!("a genuine payload of connected id {id} was not surfaced: {other:?}")));
                                }
                                _ => {}
                            }
                        }
                    }
                    Op::Payload { client: c }
                }
                8 => {
                    // a half-open address answers with the key of one of its own tokens but echoes a challenge issued for another id
                    // (two tokens used from one address, or a challenge seen on the wire)
                    let pend = nw.servers[0].server.verif_pending_addrs();
                    if pend.is_empty() {
                        continue;
                    }
                    let pa = pend[ctx.src.below(pend.len())];
                    let holders: Vec<usize> = (0..n).filter(|&i| nw.clients[i].addr == pa).collect();
                    if holders.is_empty() {
                        continue;
                    }
                    let p = holders[ctx.src.below(holders.len())];
                    let chals: Vec<(usize, u64, [u8; 300])> = nw
                        .pool
                        .iter()
                        .filter(|d| d.kind == 2)
                        .filter_map(|d| (0..n).find_map(|c| peek_challenge(&d.bytes, PROTO, &nw.clients[c].token.server_to_client_key).map(|(s, t)| (c, s, t))))
                        .filter(|(c, _, _)| nw.clients[*c].client_id != nw.clients[p].client_id)
                        .collect();
                    if chals.is_empty() {
                        continue;
                    }
                    let (c, seq, data) = chals[ctx.src.below(chals.len())];
                    let b = seal(&renetcode::verif::Packet::Response { token_sequence: seq, token_data: data }, PROTO, 9000 + ops as u64, &nw.clients[p].token.client_to_server_key);
                    ctx.label("cross_response");
                    interesting = true;
                    if let SrvOut::Connected { client_id, addr, .. } = nw.server_recv(0, pa, &b) {
                        return Err(Fail::new(
                            "connected_by_foreign_challenge",
                            format!("id {client_id} reported connected at {addr} by a response sealed with the key of client object {p} (id {}) that echoes the challenge issued for client object {c} (id {})", nw.clients[p].client_id, nw.clients[c].client_id),
                        ));
                    }
                    Op::CrossResponse { at: p, challenge_of: c }
                }
                _ => {
                    if n < 8 {
                        let c = spawn(&mut nw, ctx);
                        // labels: same id / same address as an existing live client
                        let (id, addr) = (nw.clients[c].client_id, nw.clients[c].addr);
                        if (0..c).any(|o| nw.clients[o].client_id == id && nw.clients[o].client.is_connecting()) {
                            ctx.label("same_id_two_pending");
                            interesting = true;
                        }
                        if (0..c).any(|o| nw.clients[o].addr == addr && !nw.clients[o].client.is_disconnected()) {
                            ctx.label("same_addr_two_tokens");
                            interesting = true;
                        }
                        Op::Spawn { client: c }
                    } else {
                        continue;
                    }
                }
            };
            ctx.op(&op);
            m.invariants(&nw)?;
        }
        if ctx.has("two_open") && interesting {
            ctx.nontrivial = true;
        }
        Ok(())
    }
}
