//! C20 UDP netcode transport keeps message and handshake layers in lock-step.
//! Real NetcodeServerTransport / NetcodeClientTransport over loopback sockets with an in-path relay
//! owned and pumped by the harness thread (no threads, no sleeps; time is the `duration` arguments).

use crate::engine::*;
use crate::sim::net::{key, user_data, PROTO};
use crate::sim::world::make_content;
use bytes::Bytes;
use renet::{ChannelConfig, ConnectionConfig, DisconnectReason, RenetClient, RenetServer, SendType, ServerEvent};
use renet_netcode::{ClientAuthentication, ConnectToken, NetcodeClientTransport, NetcodeServerTransport, NetcodeTransportError, ServerAuthentication, ServerConfig};
use std::collections::{BTreeMap, BTreeSet, VecDeque};
use std::net::{SocketAddr, UdpSocket};
use std::time::Duration;

pub struct C20;

/// id of the local (in-process) client some cases add to the server next to the remote ones
const LOCAL_ID: u64 = 950;
const BIG: usize = 5 * 1024 * 1024;
/// what the receiving side of the extra channel 3 believes the channel's budget to be
const TIGHT: usize = 3000;

fn extra(channel_id: u8, max_memory_usage_bytes: usize) -> ChannelConfig {
    ChannelConfig { channel_id, max_memory_usage_bytes, send_type: SendType::ReliableOrdered { resend_time: Duration::from_millis(300) } }
}

/// Default channels 0-2 plus, per direction, channel 3 whose receiver has a far smaller budget than its sender and channel 4 that only the
/// sender knows: a peer that misbehaves at the message layer (too much data, unknown channel) makes the receiving message layer end the session.
fn stack_config(server_side: bool) -> ConnectionConfig {
    let mut c = ConnectionConfig::default();
    let (mine, theirs) = if server_side { (&mut c.server_channels_config, &mut c.client_channels_config) } else { (&mut c.client_channels_config, &mut c.server_channels_config) };
    mine.push(extra(3, BIG));
    mine.push(extra(4, BIG));
    theirs.push(extra(3, TIGHT));
    c
}

/// 'Nothing more to read' on a non-blocking socket is how every receive loop ends; a transport that reports it as an error
/// stops working although the socket is fine.
fn spurious_io(e: &NetcodeTransportError) -> bool {
    matches!(e, NetcodeTransportError::IO(io) if matches!(io.kind(), std::io::ErrorKind::WouldBlock | std::io::ErrorKind::Interrupted))
}

fn sock() -> Result<UdpSocket, Fail> {
    let s = UdpSocket::bind("127.0.0.1:0").map_err(|e| Fail::new("harness_socket", e.to_string()).sig("harness_io"))?;
    s.set_nonblocking(true).map_err(|e| Fail::new("harness_socket", e.to_string()).sig("harness_io"))?;
    Ok(s)
}

struct ClientEnd {
    id: u64,
    transport: NetcodeClientTransport,
    client: RenetClient,
    addr: SocketAddr,
    back: UdpSocket,
    back_addr: SocketAddr,
    /// raw datagrams read from the sockets, not yet judged by the relay
    raw_up: Vec<Vec<u8>>,
    raw_down: Vec<Vec<u8>>,
    up: VecDeque<(Vec<u8>, u64)>,
    down: VecDeque<(Vec<u8>, u64)>,
    hist_up: Vec<Vec<u8>>,
    hist_down: Vec<Vec<u8>>,
    silence: u32,
    /// the current silence only covers the direction towards the client (its own datagrams still reach the server)
    one_way: bool,
    silent_ticks: u64,
    /// the server held this object's session at some point (by relay address)
    server_ever_held: bool,
    /// a disconnect datagram must show up at the relay by this tick: (direction up?, tick)
    expect_dgram_up_by: Option<u64>,
    expect_dgram_down_by: Option<u64>,
    /// a forwarded disconnect datagram must have ended the session on the other side by this tick
    expect_server_end_by: Option<u64>,
    expect_client_end_by: Option<u64>,
    /// a disconnect was decided for this session (by anybody)
    disconnect_decided: bool,
    ever_connected_client: bool,
    last_genuine_up: u64,
    last_genuine_down: u64,
    /// a disconnect datagram of this client object was forwarded to the server (the one way a server session ends without a datagram to the client)
    up_disconnect_forwarded: bool,
    /// a datagram of this client reached the relay's front address (it has moved on from a silent first address)
    seen_at_front: bool,
    /// the token's first address cannot even be sent to (IPv6 from an IPv4 socket): nothing the client emits is observable until it
    /// has moved on to the server's address
    unreachable_first: bool,
    /// a disconnect datagram went to the silent address after the client had moved on to the real one
    misdirected_disconnect: bool,
    /// its token had expired (by the server's clock) when its first request could reach the server
    must_never_connect: bool,
    // message model: [direction][channel] ; direction 0 = client->server
    sent: [[Vec<Bytes>; 3]; 2],
    got_ordered: [usize; 2],
    got_set: [[BTreeSet<usize>; 3]; 2],
}

struct Net {
    front: UdpSocket,
    front_addr: SocketAddr,
    /// an address nobody answers at (listed first in some tokens: the client must fail over to the real one)
    dead: UdpSocket,
    dead_addr: SocketAddr,
    server_sock_addr: SocketAddr,
    st: NetcodeServerTransport,
    server: RenetServer,
    /// a host-client: connected through RenetServer::new_local_client, unknown to the netcode layer
    local: Option<RenetClient>,
    clients: Vec<ClientEnd>,
    tick: u64,
    now: Duration,
    /// the netcode server's clock as the harness knows it (its frames may be longer than the clients')
    srv_clock: Duration,
    /// the next spawn gets a token that expires at this whole second of the server's clock
    next_token_expiry: Option<u64>,
    faults: bool,
    gentle: bool,
    /// development mode of both transports: ServerAuthentication::Unsecure / ClientAuthentication::Unsecure (tokens made by the
    /// client itself: 15 s timeout, the one server address)
    unsecure: bool,
    /// 'aged' sessions: the message layer's packet counters start at 2^40 (as after a very long session), so full slices make
    /// datagrams of up to 1236 bytes
    aged: bool,
    /// tokens expire 2 * timeout + 4 s after they were minted: long enough for any handshake of a gentle case, short enough for
    /// sessions to outlive their token
    short_tokens: bool,
    /// during a silence the datagrams for the client are not dropped but arrive from another source port of the relay's host: a
    /// client transport only listens to the address it is talking to, so for the client that is silence all the same
    misroute: bool,
    /// seconds the clients' clocks are ahead of the server's
    client_skew: u64,
    /// tokens carry a negative timeout (= timeouts disabled, as documented): nothing ever times out, but keep-alives, handshake
    /// retries and disconnect datagrams work as ever. Only in gentle cases (nobody is meant to time out there anyway).
    timeouts_disabled: bool,
    /// RV_DEBUG: per-tick state on stderr (replaying a case by hand)
    debug: bool,
    /// the server's part of the next tick is given this duration instead of the tick length (a frame that took very long)
    server_dt_once: Option<Duration>,
    /// for so many more ticks a stranger sprays junk at every socket: 6 empty datagrams per tick at the server's, 6 one-byte
    /// datagrams at each client's - from an address that is neither a client's nor the server's, queued ahead of the genuine traffic
    junk_ticks: u32,
    timeout_s: u64,
    tick_ms: u64,
    /// server events per id: true = currently connected according to the event stream
    ev_open: BTreeMap<u64, bool>,
    ev_count: u32,
    corrupted: u32,
    replayed: u32,
}

#[derive(Debug, Hash)]
enum Op {
    Tick,
    Send { client: usize, to_client: bool, ch: u8, len: usize },
    Broadcast { ch: u8, len: usize },
    ClientDisconnect { client: usize, via_transport: bool },
    ServerDisconnect { client: usize },
    DisconnectAll,
    Silence { client: usize, ticks: u32 },
    Spawn { id: u64 },
    Poison { client: usize, to_client: bool, unknown_channel: bool },
    SetLimit { to: usize },
    ServerLongFrame { ms: u64 },
    JunkFlood,
    ExpiringSpawn { id: u64, expires_at_s: u64 },
}

impl Net {
    /// `first_address`: 0 = the server's address only; 1 = a silent IPv4 socket listed first; 2 = an IPv6 address listed first, which
    /// the client's IPv4 socket cannot even send to (send_to fails until the client moves on)
    fn spawn(&mut self, id: u64, first_address: u8) -> Result<usize, Fail> {
        let csock = sock()?;
        let addr = csock.local_addr().unwrap();
        let back = sock()?;
        let back_addr = back.local_addr().unwrap();
        let ud = user_data(id);
        let auth = if self.unsecure {
            ClientAuthentication::Unsecure { protocol_id: PROTO, client_id: id, server_addr: self.front_addr, user_data: Some(ud) }
        } else {
            // a token about to expire: minted 30 s before the whole second of the server's clock at which it expires
            let (minted, life) = match self.next_token_expiry {
                Some(s) => (Duration::from_secs(s - 30), 30),
                None => (self.now, if self.short_tokens { 2 * self.timeout_s + 4 } else { 600 }),
            };
            let token = ConnectToken::generate(minted, PROTO, life, id, if self.timeouts_disabled { -1 } else { self.timeout_s as i32 }, match first_address {
                1 => vec![self.dead_addr, self.front_addr],
                2 => vec!["[::1]:9".parse().unwrap(), self.front_addr],
                _ => vec![self.front_addr],
            }, Some(&ud), &key(1)).map_err(|e| Fail::new("token", e.to_string()))?;
            ClientAuthentication::Secure { connect_token: token }
        };
        let client_clock = if self.unsecure { self.now } else { self.now + Duration::from_secs(self.client_skew) };
        let transport = NetcodeClientTransport::new(client_clock, auth, csock).map_err(|e| Fail::new("client_transport", e.to_string()))?;
        let mut client = RenetClient::new(stack_config(false));
        if self.aged {
            client.verif_set_packet_sequence(1 << 40);
        }
        self.clients.push(ClientEnd {
            id,
            transport,
            client,
            addr,
            back,
            back_addr,
            raw_up: vec![],
            raw_down: vec![],
            up: VecDeque::new(),
            down: VecDeque::new(),
            hist_up: vec![],
            hist_down: vec![],
            silence: 0,
            one_way: false,
            silent_ticks: 0,
            server_ever_held: false,
            expect_dgram_up_by: None,
            expect_dgram_down_by: None,
            expect_server_end_by: None,
            expect_client_end_by: None,
            disconnect_decided: false,
            ever_connected_client: false,
            last_genuine_up: self.tick,
            last_genuine_down: self.tick,
            up_disconnect_forwarded: false,
            seen_at_front: false,
            unreachable_first: first_address == 2,
            misdirected_disconnect: false,
            must_never_connect: self.next_token_expiry.take().is_some(),
            sent: Default::default(),
            got_ordered: [0; 2],
            got_set: Default::default(),
        });
        Ok(self.clients.len() - 1)
    }

    /// Read everything waiting on the relay's sockets.
    fn pump(&mut self) {
        let mut buf = [0u8; 2048];
        while let Ok((n, from)) = self.dead.recv_from(&mut buf) {
            // nobody answers here; a client still knocking at this address announces its own disconnect here as well
            if let Some(c) = self.clients.iter_mut().find(|c| c.addr == from) {
                if n > 0 && buf[0] & 0x0F == 6 {
                    if c.seen_at_front {
                        c.misdirected_disconnect = true;
                    } else {
                        c.expect_dgram_up_by = None;
                    }
                }
            }
        }
        while let Ok((n, from)) = self.front.recv_from(&mut buf) {
            if let Some(c) = self.clients.iter_mut().find(|c| c.addr == from) {
                c.seen_at_front = true;
                c.raw_up.push(buf[..n].to_vec());
            }
        }
        for c in self.clients.iter_mut() {
            while let Ok((n, from)) = c.back.recv_from(&mut buf) {
                if from == self.server_sock_addr {
                    c.raw_down.push(buf[..n].to_vec());
                }
            }
        }
    }

    /// Fault decisions per (client, direction, per-client order), then forward what is due.
    fn relay(&mut self, ctx: &mut Ctx) {
        self.pump();
        let tick = self.tick;
        let window = (self.timeout_s * 1000 / 3 / self.tick_ms.max(1)).max(2);
        for ci in 0..self.clients.len() {
            for up in [true, false] {
                let raws = if up { std::mem::take(&mut self.clients[ci].raw_up) } else { std::mem::take(&mut self.clients[ci].raw_down) };
                for bytes in raws {
                    let c = &mut self.clients[ci];
                    if up {
                        c.hist_up.push(bytes.clone());
                    } else {
                        c.hist_down.push(bytes.clone());
                    }
                    let is_disconnect = bytes.first().map(|b| b & 0x0F) == Some(6);
                    if is_disconnect {
                        if up {
                            c.expect_dgram_up_by = None;
                        } else {
                            c.expect_dgram_down_by = None;
                        }
                    }
                    if c.silence > 0 && !(up && c.one_way) {
                        if !up && self.misroute {
                            let _ = self.dead.send_to(&bytes, c.addr);
                            ctx.label("misrouted_during_silence");
                        }
                        continue;
                    }
                    let starving = tick.saturating_sub(if up { c.last_genuine_up } else { c.last_genuine_down }) >= window;
                    let mut f = if !self.faults || (self.gentle && starving) { 0 } else { ctx.src.weighted(&[150, if self.gentle { 25 } else { 45 }, 20, 20, 12, 9]) };
                    // handshake datagrams travelling to the server are only forwarded, dropped or corrupted: a stale copy arriving
                    // after its session ended would re-open it (token re-use, see above)
                    if up && matches!(bytes.first().map(|b| b & 0x0F), Some(0) | Some(3)) && matches!(f, 2 | 3) {
                        f = 0;
                    }
                    if is_disconnect && matches!(f, 0 | 2 | 3 | 5) {
                        // the genuine disconnect datagram will arrive: the other side must end the session shortly after
                        let by = tick + 8 + 3;
                        if up {
                            c.expect_server_end_by = Some(by);
                        } else if c.client.is_connected() {
                            // a client still answering the challenge ignores a disconnect packet (it only times out)
                            c.expect_client_end_by = Some(by);
                        }
                    }
                    let q = if up { &mut c.up } else { &mut c.down };
                    match f {
                        0 => {
                            q.push_back((bytes, tick));
                            if up {
                                c.last_genuine_up = tick;
                            } else {
                                c.last_genuine_down = tick;
                            }
                        }
                        1 => {
                            ctx.label("relay_drop");
                        }
                        2 => {
                            q.push_back((bytes.clone(), tick));
                            q.push_back((bytes, tick + ctx.src.below(3) as u64));
                            if up {
                                c.last_genuine_up = tick;
                            } else {
                                c.last_genuine_down = tick;
                            }
                            ctx.label("relay_dup");
                        }
                        3 => {
                            let d = 1 + ctx.src.below(if self.gentle { 2 } else { 6 }) as u64;
                            q.push_back((bytes, tick + d));
                            ctx.label("relay_delay");
                        }
                        4 => {
                            // corrupt: one bit flipped (the genuine one is lost)
                            let mut b = bytes;
                            if !b.is_empty() {
                                let i = ctx.src.below(b.len());
                                b[i] ^= 1 << ctx.src.below(8);
                            }
                            q.push_back((b, tick));
                            self.corrupted += 1;
                            ctx.label("relay_corrupt");
                        }
                        _ => {
                            // deliver, and replay an old datagram of the same link as well
                            let hist = if up { &c.hist_up } else { &c.hist_down };
                            let old = hist[ctx.src.below(hist.len())].clone();
                            q.push_back((bytes, tick));
                            // a replayed request or response re-opens a finished session with the same token from the same
                            // address (token re-use, allowed by the netcode protocol until the token expires): not generated
                            let handshake = up && matches!(old.first().map(|b| b & 0x0F), Some(0) | Some(3));
                            if !handshake {
                                q.push_back((old, tick));
                            }
                            if up {
                                c.last_genuine_up = tick;
                            } else {
                                c.last_genuine_down = tick;
                            }
                            self.replayed += 1;
                            ctx.label("relay_replay");
                        }
                    }
                }
                // forward what is due, oldest first
                let c = &mut self.clients[ci];
                let q = if up { &mut c.up } else { &mut c.down };
                let mut keep = VecDeque::new();
                while let Some((b, due)) = q.pop_front() {
                    if due <= tick {
                        if up {
                            if b.first().map(|x| x & 0x0F) == Some(6) {
                                c.up_disconnect_forwarded = true;
                            }
                            let _ = c.back.send_to(&b, self.server_sock_addr);
                        } else {
                            let _ = self.front.send_to(&b, c.addr);
                        }
                    } else {
                        keep.push_back((b, due));
                    }
                }
                *q = keep;
            }
        }
    }

    fn check_obtained(&mut self, ci: usize, dir: usize, ch: usize, m: &Bytes) -> Outcome {
        let c = &mut self.clients[ci];
        let who = format!("client object {ci} (id {}) {} channel {ch}", c.id, if dir == 0 { "client->server" } else { "server->client" });
        let pos = c.sent[dir][ch].iter().position(|s| s == m);
        match ch {
            2 => {
                let i = c.got_ordered[dir];
                if c.sent[dir][2].get(i) != Some(m) {
                    return Err(Fail::new("e2e_ordered_prefix", format!("{who}: message #{i} obtained over the full stack differs from message #{i} submitted (found at {pos:?})")));
                }
                c.got_ordered[dir] += 1;
            }
            1 => {
                let Some(p) = pos else { return Err(Fail::new("e2e_fabricated", format!("{who}: obtained a message never submitted on this session"))) };
                if !c.got_set[dir][1].insert(p) {
                    return Err(Fail::new("e2e_duplicate", format!("{who}: reliable unordered message #{p} obtained twice")));
                }
            }
            _ => {
                let Some(p) = pos else { return Err(Fail::new("e2e_fabricated", format!("{who}: obtained an unreliable message never submitted on this session"))) };
                c.got_set[dir][0].insert(p);
            }
        }
        Ok(())
    }

    fn drain(&mut self) -> Outcome {
        for ci in 0..self.clients.len() {
            for ch in 0..3u8 {
                while let Some(m) = self.clients[ci].client.receive_message(ch) {
                    self.check_obtained(ci, 1, ch as usize, &m)?;
                }
            }
        }
        // server side: messages are attributed to the newest client object of that id that is not finished
        for id in self.server.clients_id() {
            for ch in 0..3u8 {
                while let Some(m) = self.server.receive_message(id, ch) {
                    // the session that sent it: a client object with this id whose model contains the message
                    let owner = (0..self.clients.len()).rev().find(|&i| self.clients[i].id == id && self.clients[i].sent[0][ch as usize].iter().any(|s| *s == m));
                    match owner {
                        Some(ci) => self.check_obtained(ci, 0, ch as usize, &m)?,
                        None => return Err(Fail::new("e2e_fabricated", format!("server obtained under id {id} a message no client object with that id submitted"))),
                    }
                }
            }
        }
        Ok(())
    }

    fn events(&mut self, ctx: &mut Ctx) -> Outcome {
        while let Some(e) = self.server.get_event() {
            self.ev_count += 1;
            match e {
                ServerEvent::ClientConnected { client_id } => {
                    if !self.clients.iter().any(|c| c.id == client_id) && !(client_id == LOCAL_ID && self.local.is_some()) {
                        return Err(Fail::new("event_unknown_id", format!("ClientConnected for id {client_id} which no client holds a token for")));
                    }
                    if self.aged && client_id != LOCAL_ID {
                        if let Some(c) = self.server.verif_connection_mut(client_id) {
                            c.verif_set_packet_sequence(1 << 40);
                        }
                    }
                    if self.ev_open.insert(client_id, true) == Some(true) {
                        return Err(Fail::new("event_double_connect", format!("two ClientConnected events for id {client_id} without a disconnect between them")));
                    }
                    ctx.label("event_connected");
                }
                ServerEvent::ClientDisconnected { client_id, reason } => {
                    if self.ev_open.insert(client_id, false) != Some(true) {
                        return Err(Fail::new("event_disconnect_without_connect", format!("ClientDisconnected({reason:?}) for id {client_id} which was not connected")));
                    }
                    if self.gentle {
                        let states: Vec<String> = self.clients.iter().map(|c| format!("id {}: renet {:?} / netcode {:?}", c.id, c.client.disconnect_reason(), c.transport.disconnect_reason())).collect();
                        return Err(Fail::new(
                            "healthy_session_disconnected",
                            format!("server reported id {client_id} disconnected ({reason:?}) in a case without any disconnect operation where genuine datagrams kept flowing in both directions; client objects: {states:?}"),
                        ));
                    }
                    if matches!(reason, DisconnectReason::ReceiveChannelError { .. } | DisconnectReason::ReceivedInvalidChannelId(_)) {
                        ctx.label("server_msg_layer_disconnect");
                    }
                    ctx.label("event_disconnected");
                }
            }
        }
        Ok(())
    }

    fn do_tick(&mut self, ctx: &mut Ctx) -> Outcome {
        self.tick += 1;
        let dt = Duration::from_millis(self.tick_ms);
        self.now += dt;
        let (timeout_ms, tick_ms) = (self.timeout_s * 1000, self.tick_ms);
        for c in self.clients.iter_mut() {
            if c.silence > 0 {
                c.silence -= 1;
                c.silent_ticks += 1;
                if !c.one_way {
                    c.up.clear();
                }
                c.down.clear();
                // whatever was in flight is gone, including a disconnect datagram
                c.expect_server_end_by = None;
                c.expect_client_end_by = None;
                c.expect_dgram_up_by = None;
                c.expect_dgram_down_by = None;
                // total silence in both directions for longer than the timeout ends the session on both sides
                if c.silent_ticks * tick_ms > timeout_ms + 2 * tick_ms && c.ever_connected_client {
                    c.disconnect_decided = true;
                }
                if c.silence == 0 {
                    // the relay forwards again from this tick on (a following silence starts counting afresh)
                    c.silent_ticks = 0;
                }
            } else {
                c.silent_ticks = 0;
            }
        }
        if self.junk_ticks > 0 {
            self.junk_ticks -= 1;
            for _ in 0..6 {
                let _ = self.dead.send_to(&[], self.server_sock_addr);
                for c in self.clients.iter() {
                    let _ = self.dead.send_to(&[0x55], c.addr);
                }
            }
        }
        // clients: receive + netcode update
        for ci in 0..self.clients.len() {
            let c = &mut self.clients[ci];
            c.client.update(dt);
            let was = c.client.is_disconnected();
            if let Err(e) = c.transport.update(dt, &mut c.client) {
                if spurious_io(&e) {
                    return Err(Fail::new("transport_reports_wouldblock", format!("NetcodeClientTransport::update of client object {ci} returned {e} although its socket only had nothing more to read")));
                }
            }
            if c.client.is_connected() {
                c.ever_connected_client = true;
            }
            if c.silence > 0 && c.silent_ticks * tick_ms > timeout_ms + 3 * tick_ms && c.client.is_connected() {
                return Err(Fail::new(
                    "client_survived_silence",
                    format!("client object {ci} is still connected after {} ms without a single datagram from its server's address (timeout {} ms)", c.silent_ticks * tick_ms, timeout_ms),
                ));
            }
            if !was && c.client.is_disconnected() && self.gentle {
                return Err(Fail::new(
                    "healthy_session_disconnected",
                    format!("client object {ci} became disconnected ({:?} / {:?}) in a case without any disconnect operation where genuine datagrams kept flowing", c.client.disconnect_reason(), c.transport.disconnect_reason()),
                ));
            }
            if !was && c.client.is_disconnected() && c.transport.disconnect_reason().is_none() {
                // the client's message layer ended the session while receiving: its transport must announce it at its next update
                ctx.label("client_msg_layer_disconnect");
                c.disconnect_decided = true;
                if c.silence == 0 && (!c.unreachable_first || c.seen_at_front) {
                    c.expect_dgram_up_by = Some(self.tick + 2);
                }
            }
        }
        self.relay(ctx);
        // server: receive, update clients, push renet disconnects down (its frame may have taken much longer than the clients')
        let dt = self.server_dt_once.take().unwrap_or(dt);
        self.srv_clock += dt;
        self.server.update(dt);
        if let Some(l) = self.local.as_mut() {
            l.update(dt);
            if self.server.process_local_client(LOCAL_ID, l).is_err() {
                return Err(Fail::new("local_client_lost", "process_local_client does not find the local client's connection any more"));
            }
            for ch in 0..3u8 {
                while l.receive_message(ch).is_some() {}
            }
        }
        if let Err(e) = self.st.update(dt, &mut self.server) {
            if spurious_io(&e) {
                return Err(Fail::new("transport_reports_wouldblock", format!("NetcodeServerTransport::update returned {e} although its socket only had nothing more to read")));
            }
            return Err(Fail::new("server_transport_error", e.to_string()).sig("harness_io"));
        }
        if self.debug {
            for c in self.clients.iter() {
                eprintln!("tick {} id {} held={:?} since={:?} client_connected={} raw_up={} hist_up={} hist_down={}", self.tick, c.id, self.st.client_addr(c.id), self.st.time_since_last_received_packet(c.id), c.client.is_connected(), c.raw_up.len(), c.hist_up.len(), c.hist_down.len());
            }
        }
        self.events(ctx)?;
        // lock-step right after the server transport's update
        // the local client is a connection of the message layer only, by construction
        let mut renet_ids: Vec<u64> = self.server.clients_id().into_iter().filter(|i| *i != LOCAL_ID).collect();
        renet_ids.sort_unstable();
        if !self.server.disconnections_id().is_empty() {
            return Err(Fail::new("lockstep_disconnected_left", format!("after the transport update the message layer still holds disconnected connections {:?}", self.server.disconnections_id())));
        }
        let known: BTreeSet<u64> = self.clients.iter().map(|c| c.id).collect();
        let netcode_ids: Vec<u64> = known.iter().copied().filter(|id| self.st.client_addr(*id).is_some()).collect();
        if renet_ids != netcode_ids || self.st.connected_clients() != renet_ids.len() {
            return Err(Fail::new(
                "lockstep_tables_differ",
                format!("after the transport update the message layer holds {renet_ids:?}, the netcode layer holds {netcode_ids:?} ({} connected)", self.st.connected_clients()),
            ));
        }
        let open: Vec<u64> = self.ev_open.iter().filter(|(i, o)| **o && **i != LOCAL_ID).map(|(i, _)| *i).collect();
        if open != renet_ids {
            return Err(Fail::new("lockstep_events_differ", format!("events say {open:?} are connected, the message layer holds {renet_ids:?}")));
        }
        self.relay(ctx);
        self.drain()?;
        // propagation of disconnects
        let tick = self.tick;
        for ci in 0..self.clients.len() {
            let held = self.st.client_addr(self.clients[ci].id) == Some(self.clients[ci].back_addr);
            let c = &mut self.clients[ci];
            if held {
                c.server_ever_held = true;
            }
            if c.must_never_connect && (held || c.client.is_connected()) {
                return Err(Fail::new(
                    "expired_token_connected",
                    format!("client object {ci} (id {}) holds a connect token that had expired by the server's clock before its first request could be read, yet its handshake completed", c.id),
                ));
            }
            if c.client.is_connected() && !c.server_ever_held {
                return Err(Fail::new("client_connected_before_handshake", format!("the RenetClient of client object {ci} reports connected although the server never completed a handshake for it")));
            }
            if c.expect_dgram_up_by.is_some() && matches!(c.transport.disconnect_reason(), Some(r) if r != renet_netcode::NetcodeDisconnectReason::DisconnectedByClient) {
                // the netcode client already ended by other means (server's disconnect, timeout); its own decision must come with a datagram
                c.expect_dgram_up_by = None;
            }
            if c.expect_dgram_down_by.is_some() && !held && c.up_disconnect_forwarded {
                // the netcode session may have ended by the client's own disconnect datagram, the one ending that sends nothing to the client
                // (a timeout and disconnect_all send a disconnect datagram themselves)
                c.expect_dgram_down_by = None;
            }
            if c.misdirected_disconnect {
                return Err(Fail::new("disconnect_sent_to_abandoned_address", format!("client object {ci} announced its disconnect at the silent first address of its token although it had moved on to the server's address")));
            }
            if let Some(by) = c.expect_dgram_up_by {
                if tick > by {
                    return Err(Fail::new("disconnect_not_pushed_down", format!("client object {ci} was disconnected by the message layer but no netcode disconnect datagram left it within 2 ticks")));
                }
            }
            if let Some(by) = c.expect_dgram_down_by {
                if tick > by {
                    return Err(Fail::new("disconnect_not_pushed_down", format!("the server's message layer disconnected id {} but no netcode disconnect datagram was sent to it within 2 ticks", c.id)));
                }
            }
            if let Some(by) = c.expect_server_end_by {
                if !held {
                    c.expect_server_end_by = None;
                } else if tick > by {
                    return Err(Fail::new("disconnect_datagram_ignored_by_server", format!("the disconnect datagram of client object {ci} was forwarded but the server still holds its session")));
                }
            }
            if let Some(by) = c.expect_client_end_by {
                if c.client.is_disconnected() {
                    c.expect_client_end_by = None;
                } else if tick > by {
                    return Err(Fail::new("disconnect_datagram_ignored_by_client", format!("the server's disconnect datagram for client object {ci} was forwarded but its RenetClient is still connected")));
                }
            }
        }
        // both sides send
        for c in self.clients.iter_mut() {
            let _ = c.transport.send_packets(&mut c.client);
        }
        self.st.send_packets(&mut self.server);
        self.relay(ctx);
        Ok(())
    }
}

impl Property for C20 {
    fn id(&self) -> &'static str {
        "C20"
    }
    fn level(&self) -> &'static str {
        "fault_enumeration"
    }
    fn rule(&self) -> String {
        "A case runs the real NetcodeServerTransport and 1-3 NetcodeClientTransports (secure authentication with generated tokens, or in some cases the Unsecure development mode of both transports) (plus reconnecting client objects with new tokens; some tokens list a silent address before the real one, so the client fails over first) on loopback UDP sockets through an in-path relay that the harness thread pumps after every transport call. Relay fault decision per (client, direction, datagram): forward / drop / duplicate / delay 1-6 ticks (hence reorder) / flip one bit / forward and replay an old datagram of that link; whole-silence periods (in some cases the datagrams for the client then arrive from another source port of the relay's host instead of being dropped, while its own datagrams may still reach the server, which a client transport must treat as silence: after timeout + 3 ticks of it the client is disconnected); application traffic on all three default channels in both directions and broadcasts; disconnects decided by RenetClient::disconnect, NetcodeClientTransport::disconnect, RenetServer::disconnect, NetcodeServerTransport::disconnect_all, by silence (timeouts) and by the receiving message layer itself while it processes a datagram (a peer sends more than the receiver's budget of the extra channel 3, or on a channel only the sender knows); reconnects; the client limit raised and lowered at run time (the transport's max_clients() reads back what was set); ticks of 16 / 50 / 100 ms, in a fifth of the cases 250 or 300 ms (at or above the netcode send period); in non-gentle secure cases an operation mints a token that expires at the whole second the next server frame reaches or passes and starts its client at once - by the server's clock (tracked by the harness, long frames included) the token has expired before the first request can be read, so that client is never connected on either side; in some cases a local (in-process) client connected to the same RenetServer; 'aged' cases start the message layer's packet counters at 2^40 so that full slices make the largest datagrams; messages are also submitted while the handshake still runs; a second client object of a connected id may start while the first is alive, or two objects of one id start together and the one that got in quits at a planned tick within the other's response timeout; single server frames longer than the timeout; in some cases tokens expire 2 * timeout + 4 s after they were minted, so sessions outlive their token; in some cases a stranger sprays 6 empty datagrams per tick at the server's socket and 6 one-byte datagrams at every client's, from an address nobody talks to, for a little longer than the timeout; some gentle cases run with tokens whose timeout is negative (timeouts disabled: keep-alives, retries and the final liveness clause work as ever). Oracles: right after every NetcodeServerTransport::update the ids the message layer reports connected equal the ids the netcode layer holds (client_addr, connected_clients), no disconnected connection is left, and equal the ids open in the ServerEvent stream, which alternates per id and only names ids that hold a token; every message obtained over the full stack satisfies the ordered-prefix / unordered-at-most-once / unreliable-membership oracles of its session; after the faults stop and timeout + 3 s of fault-free ticks every session for which a disconnect was decided anywhere has ended on both sides, and every session that stayed healthy has obtained all reliable messages; in 'gentle' cases (no disconnect operation, no silence, at least one genuine datagram per direction forwarded in every third of the timeout) nobody is ever disconnected whatever else the relay does, and at the end every client is connected in both layers on both sides; a transport update never reports 'nothing more to read' (WouldBlock) as an error. Non-trivial: at least one corrupted or replayed datagram after a handshake completed and at least one relay fault. Distinct = hash of the decoded operation trace.".into()
    }
    fn assumptions(&self) -> Vec<String> {
        vec![
            "loopback UDP delivers synchronously (measured: a datagram is readable right after send_to); a kernel drop would only look like network loss".into(),
            "socket creation failures are reported as inconclusive (exit 2), never as a violation".into(),
            "default channels (5 MB budgets) and light traffic, so channel memory never runs out except on the extra channel 3 whose receiver is configured with 3000 bytes".into(),
        ]
    }
    fn pbt(&self, tier: Tier) -> PbtCfg {
        PbtCfg { cases: tier.pick(30_000, 300_000), max_len: tier.pick(1200, 5000), shrink_ms: 120_000 }
    }
    fn required_labels(&self) -> Vec<&'static str> {
        vec!["relay_corrupt", "relay_replay", "relay_drop", "relay_dup", "relay_delay", "client_disconnect", "transport_disconnect", "server_disconnect", "disconnect_all", "timeout_by_silence", "gentle_case", "reconnect", "event_connected", "event_disconnected", "e2e_messages", "poison_to_client", "poison_to_server", "server_msg_layer_disconnect", "client_msg_layer_disconnect", "silent_first_address", "unsecure_authentication", "local_client", "limit_changed", "aged_counters", "unreachable_first_address", "second_object_same_id", "sent_while_connecting", "server_long_frame", "short_lived_tokens", "misrouted_during_silence", "one_way_silence", "twin_objects_same_id", "timeouts_disabled", "junk_flood", "slow_ticks", "token_expiring_in_first_frame"]
    }
    fn run_choices(&self, ctx: &mut Ctx) -> Outcome {
        let seed16 = ctx.src.u16() as u64;
        renetcode::verif::set_rng_seed(Some(seed16 | 1));
        // the clients' clocks differ from the server's (and the token issuer's) in some cases: a netcode client only uses differences
        // of its own clock. Not in the Unsecure mode, where the client stamps its own token with its own clock.
        let client_skew = match (seed16 >> 2) % 8 {
            0..=3 => 0u64,
            4 => 120,
            5 => 1_790_000_000,
            6 => 7,
            _ => 3600,
        };
        let front = sock()?;
        let front_addr = front.local_addr().unwrap();
        let ssock = sock()?;
        let server_sock_addr = ssock.local_addr().unwrap();
        let dead = sock()?;
        let dead_addr = dead.local_addr().unwrap();
        let now = Duration::from_secs(500);
        let aged = ctx.src.chance(60);
        if aged {
            ctx.label("aged_counters");
        }
        let unsecure = ctx.src.chance(20);
        let misroute = ctx.src.chance(100);
        let short_tokens = !unsecure && ctx.src.chance(100);
        if short_tokens {
            ctx.label("short_lived_tokens");
        }
        // unsecure clients make their own token: the timeout is fixed at 15 s
        let timeout_s = if unsecure { 15 } else { ctx.src.pick(&[3u64, 2, 5]) };
        if unsecure {
            ctx.label("unsecure_authentication");
        }
        let tick_ms = ctx.src.pick(&[50u64, 16, 100]);
        // a fifth of the cases run at slow frame rates: a tick as long as, or longer than, the netcode layer's 250 ms send period
        let tick_ms = if (seed16 >> 9) % 5 == 0 { [250u64, 300][((seed16 >> 12) & 1) as usize] } else { tick_ms };
        if tick_ms >= 250 {
            ctx.label("slow_ticks");
        }
        let gentle = ctx.src.chance(70);
        if gentle {
            ctx.label("gentle_case");
        }
        let timeouts_disabled = gentle && !unsecure && (seed16 >> 6) % 6 == 0;
        if timeouts_disabled {
            ctx.label("timeouts_disabled");
        }
        let st = NetcodeServerTransport::new(
            ServerConfig { current_time: now, max_clients: 4, protocol_id: PROTO, public_addresses: vec![front_addr], authentication: if unsecure { ServerAuthentication::Unsecure } else { ServerAuthentication::Secure { private_key: key(1) } } },
            ssock,
        )
        .map_err(|e| Fail::new("harness_socket", e.to_string()).sig("harness_io"))?;
        let mut net = Net {
            front,
            front_addr,
            dead,
            dead_addr,
            server_sock_addr,
            st,
            server: RenetServer::new(stack_config(true)),
            local: None,
            clients: vec![],
            tick: 0,
            now,
            srv_clock: now,
            next_token_expiry: None,
            faults: true,
            gentle,
            unsecure,
            aged,
            short_tokens,
            misroute,
            client_skew,
            timeouts_disabled,
            debug: std::env::var("RV_DEBUG").is_ok(),
            server_dt_once: None,
            junk_ticks: 0,
            timeout_s,
            tick_ms,
            ev_open: BTreeMap::new(),
            ev_count: 0,
            corrupted: 0,
            replayed: 0,
        };
        if ctx.src.chance(40) {
            // a host-client next to the remote ones (the transport finds no netcode session for it, which must not disturb the others)
            net.local = Some(net.server.new_local_client(LOCAL_ID));
            ctx.label("local_client");
        }
        let n0 = 1 + ctx.src.below(3);
        ctx.op(&(n0, timeout_s, tick_ms, gentle, unsecure, aged));
        for i in 0..n0 {
            // some tokens list a silent address first: the client connects to the real one only after failing over
            let silent_first = !unsecure && timeout_s <= 3 && ctx.src.chance(40) && !timeouts_disabled;
            let kind = if !silent_first {
                0
            } else if ctx.src.chance(90) {
                ctx.label("unreachable_first_address");
                2
            } else {
                ctx.label("silent_first_address");
                1
            };
            net.spawn(900 + i as u64, kind)?;
        }
        let max_ops = ctx.tier.pick(250, 1200);
        let mut ops = 0;
        let mut serial = 0u32;
        let mut planned_quit: Option<(usize, usize, u64)> = None;
        while !ctx.src.exhausted() && ops < max_ops {
            ops += 1;
            if let Some((a, b, at)) = planned_quit {
                if net.tick >= at {
                    planned_quit = None;
                    // whichever twin got in quits now
                    if let Some(ci) = [a, b].into_iter().find(|&ci| net.clients[ci].client.is_connected()) {
                        let tick = net.tick;
                        let c = &mut net.clients[ci];
                        let live = c.transport.disconnect_reason().is_none();
                        c.client.disconnect();
                        ctx.label("client_disconnect");
                        if live && c.silence == 0 && (!c.unreachable_first || c.seen_at_front) {
                            c.expect_dgram_up_by = Some(tick + 2);
                        }
                        c.disconnect_decided = true;
                        ctx.op(&("planned_quit", ci));
                    }
                }
            }
            let w: [u32; 13] = if gentle { [60, 30, 4, 0, 0, 0, 0, 0, 0, 2, 2, 2, 0] } else { [60, 30, 4, 3, 3, 1, 3, 3, 3, 2, 2, 2, if unsecure { 0 } else { 2 }] };
            let op = match ctx.src.weighted(&w) {
                0 => {
                    net.do_tick(ctx)?;
                    Op::Tick
                }
                1 => {
                    let ci = ctx.src.below(net.clients.len());
                    let to_client = ctx.src.chance(128);
                    let ch = ctx.src.below(3) as u8;
                    let len = ctx.src.pick(&[40usize, 16, 300, 1200, 1201, 3000]);
                    serial += 1;
                    let m = make_content(ci, to_client, ch, serial, len, 0);
                    if to_client {
                        // only to the session the server holds for this id, if it is this client object's (by its relay address)
                        let id = net.clients[ci].id;
                        if net.server.is_connected(id) && net.st.client_addr(id) == Some(net.clients[ci].back_addr) {
                            net.server.send_message(id, ch, m.clone());
                            net.clients[ci].sent[1][ch as usize].push(m);
                            ctx.label("e2e_messages");
                        }
                    } else if !net.clients[ci].client.is_disconnected() {
                        // also while the handshake is still running: the message waits in its channel (reliable) or is lost (unreliable)
                        let c = &mut net.clients[ci];
                        if !c.client.is_connected() {
                            ctx.label("sent_while_connecting");
                        }
                        c.client.send_message(ch, m.clone());
                        c.sent[0][ch as usize].push(m);
                        ctx.label("e2e_messages");
                    }
                    Op::Send { client: ci, to_client, ch, len }
                }
                2 => {
                    let ch = ctx.src.below(3) as u8;
                    let len = ctx.src.pick(&[40usize, 300, 1500]);
                    serial += 1;
                    let m = make_content(0xFF, true, ch, serial, len, 0);
                    // recipients: the client object (by relay address) behind every id the message layer holds as connected
                    let ids = net.server.clients_id();
                    net.server.broadcast_message(ch, m.clone());
                    for id in ids {
                        let a = net.st.client_addr(id);
                        if let Some(ci) = net.clients.iter().position(|c| c.id == id && Some(c.back_addr) == a) {
                            net.clients[ci].sent[1][ch as usize].push(m.clone());
                        }
                    }
                    Op::Broadcast { ch, len }
                }
                3 => {
                    let ci = ctx.src.below(net.clients.len());
                    let via_transport = ctx.src.chance(100);
                    let tick = net.tick;
                    let c = &mut net.clients[ci];
                    // in every state short of disconnected the transport announces the end of the session with a disconnect datagram
                    let live = !c.client.is_disconnected() && c.transport.disconnect_reason().is_none();
                    if via_transport {
                        c.transport.disconnect();
                        ctx.label("transport_disconnect");
                    } else {
                        c.client.disconnect();
                        ctx.label("client_disconnect");
                    }
                    if live && c.silence == 0 && (!c.unreachable_first || c.seen_at_front) {
                        c.expect_dgram_up_by = Some(tick + 2);
                    }
                    c.disconnect_decided = true;
                    Op::ClientDisconnect { client: ci, via_transport }
                }
                4 => {
                    let ci = ctx.src.below(net.clients.len());
                    let id = net.clients[ci].id;
                    if net.server.is_connected(id) {
                        ctx.label("server_disconnect");
                        // the session the server holds for this id belongs to the client object behind that relay address
                        let a = net.st.client_addr(id);
                        let tick = net.tick;
                        for c in net.clients.iter_mut().filter(|c| c.id == id && Some(c.back_addr) == a) {
                            c.disconnect_decided = true;
                            c.expect_dgram_down_by = Some(tick + 2);
                        }
                    }
                    net.server.disconnect(id);
                    Op::ServerDisconnect { client: ci }
                }
                5 => {
                    ctx.label("disconnect_all");
                    for i in 0..net.clients.len() {
                        let id = net.clients[i].id;
                        if net.st.client_addr(id) == Some(net.clients[i].back_addr) {
                            net.clients[i].disconnect_decided = true;
                        }
                    }
                    net.st.disconnect_all(&mut net.server);
                    net.events(ctx)?;
                    // 'disconnects all connected clients ... sends the disconnect packet instantly': nothing may be left in either layer,
                    // whatever the message layer had already decided for some of them
                    let remote_left: Vec<u64> = net.server.clients_id().into_iter().chain(net.server.disconnections_id()).filter(|i| *i != LOCAL_ID).collect();
                    if net.st.connected_clients() != 0 || !remote_left.is_empty() {
                        return Err(Fail::new(
                            "disconnect_all_left_sessions",
                            format!("after disconnect_all the netcode layer still holds {} session(s) and the message layer holds remote connections {remote_left:?}", net.st.connected_clients()),
                        ));
                    }
                    Op::DisconnectAll
                }
                6 => {
                    let ci = ctx.src.below(net.clients.len());
                    let ticks = ctx.src.pick(&[5u32, 20, 80, 160]);
                    net.clients[ci].silence = ticks;
                    // with misrouting, half of the silences leave the client's own datagrams alone: the server keeps the session and keeps
                    // sending, the client hears nothing from the address it talks to
                    net.clients[ci].one_way = net.misroute && ctx.src.chance(128);
                    if net.clients[ci].one_way {
                        ctx.label("one_way_silence");
                    }
                    if ticks as u64 * tick_ms > timeout_s * 1000 {
                        ctx.label("timeout_by_silence");
                    }
                    Op::Silence { client: ci, ticks }
                }
                11 => {
                    // a stranger sprays junk at every socket for a little longer than the timeout: datagrams that are not even
                    // candidates for a session (empty, one byte, from an address nobody talks to) must not hold anything back
                    net.junk_ticks = ((timeout_s * 1000 + 1500) / tick_ms) as u32;
                    ctx.label("junk_flood");
                    Op::JunkFlood
                }
                10 => {
                    // one server frame that takes longer than the session timeout while the clients keep their pace: the datagrams
                    // waiting in its socket are read in that very update, so nobody has been silent. The tick before and the long
                    // one run without relay faults (what waits in the socket must really have been sent).
                    let ms = timeout_s * 1000 + ctx.src.pick(&[700u64, 100, 2500]);
                    // every session the server holds must have something on its way: only possible when its client is connected too
                    // (a client still waiting for the accepting keep-alive sends nothing the server would count)
                    let all_up = net.clients.iter().all(|c| net.st.client_addr(c.id) != Some(c.back_addr) || (c.client.is_connected() && c.silence == 0));
                    // a long server frame moves the server's clock ahead of everybody else's: with short-lived tokens a client that has
                    // yet to send its request would legitimately find it expired there
                    if !all_up || net.short_tokens {
                        continue;
                    }
                    for ci in 0..net.clients.len() {
                        if net.st.client_addr(net.clients[ci].id) == Some(net.clients[ci].back_addr) {
                            serial += 1;
                            let m = make_content(ci, false, 2, serial, 24, 0);
                            let c = &mut net.clients[ci];
                            c.client.send_message(2, m.clone());
                            c.sent[0][2].push(m);
                        }
                    }
                    let held_before: Vec<bool> = net.clients.iter().map(|c| net.st.client_addr(c.id) == Some(c.back_addr)).collect();
                    let faults = net.faults;
                    net.faults = false;
                    net.do_tick(ctx)?;
                    // a handshake that completed on the server during that tick belongs to a client that has not sent anything yet
                    let held_after: Vec<bool> = net.clients.iter().map(|c| net.st.client_addr(c.id) == Some(c.back_addr)).collect();
                    let still_all_up = held_after == held_before && net.clients.iter().all(|c| net.st.client_addr(c.id) != Some(c.back_addr) || (c.client.is_connected() && c.silence == 0));
                    if still_all_up {
                        net.server_dt_once = Some(Duration::from_millis(ms));
                        net.do_tick(ctx)?;
                        ctx.label("server_long_frame");
                    }
                    net.faults = faults;
                    Op::ServerLongFrame { ms: if still_all_up { ms } else { 0 } }
                }
                9 => {
                    // the client limit changed at run time: nobody is disconnected by that (in gentle cases it stays large enough for
                    // everybody, so that every handshake can still complete)
                    let to = if gentle { 3 + ctx.src.below(4) } else { 1 + ctx.src.below(6) };
                    let before = net.st.connected_clients();
                    net.st.set_max_clients(to);
                    if net.st.connected_clients() != before {
                        return Err(Fail::new("limit_change_dropped_sessions", format!("set_max_clients({to}) changed the number of netcode sessions from {before} to {}", net.st.connected_clients())));
                    }
                    if net.st.max_clients() != to {
                        return Err(Fail::new("limit_not_forwarded", format!("NetcodeServerTransport::set_max_clients({to}) left max_clients() at {} ({before} sessions held)", net.st.max_clients())));
                    }
                    ctx.label("limit_changed");
                    Op::SetLimit { to }
                }
                8 => {
                    // message-layer misbehaviour of a peer: more data than the receiver's budget for channel 3, or a channel the receiver does
                    // not know; the receiving message layer ends the session while processing the datagram
                    let ci = ctx.src.below(net.clients.len());
                    let to_client = ctx.src.chance(128);
                    let unknown_channel = ctx.src.chance(100);
                    serial += 1;
                    let (ch, len) = if unknown_channel { (4u8, 20usize) } else { (3u8, 2 * TIGHT) };
                    let m = make_content(ci, to_client, ch, serial, len, 0);
                    let id = net.clients[ci].id;
                    if to_client {
                        if net.server.is_connected(id) && net.st.client_addr(id) == Some(net.clients[ci].back_addr) {
                            net.server.send_message(id, ch, m);
                            net.clients[ci].disconnect_decided = true;
                            ctx.label("poison_to_client");
                        }
                    } else if net.clients[ci].client.is_connected() {
                        net.clients[ci].client.send_message(ch, m);
                        net.clients[ci].disconnect_decided = true;
                        ctx.label("poison_to_server");
                    }
                    Op::Poison { client: ci, to_client, unknown_channel }
                }
                12 => {
                    // a client whose token expires in the very server frame in which its first request can be read: the frame's update moves
                    // the clock to or past the expiry second before the datagrams waiting in the socket are judged, so it never connects
                    if net.clients.len() >= 6 {
                        continue;
                    }
                    let mut waited = 0;
                    while (net.srv_clock.as_millis() as u64 + tick_ms) / 1000 == net.srv_clock.as_millis() as u64 / 1000 && waited < 70 {
                        net.do_tick(ctx)?;
                        waited += 1;
                    }
                    let s = (net.srv_clock.as_millis() as u64 + tick_ms) / 1000;
                    net.next_token_expiry = Some(s);
                    let id = 960 + net.clients.len() as u64;
                    net.spawn(id, 0)?;
                    ctx.label("token_expiring_in_first_frame");
                    Op::ExpiringSpawn { id, expires_at_s: s }
                }
                _ => {
                    // a new client object: a new id, or a reconnect of an id whose earlier session is over
                    if net.clients.len() < 6 {
                        let id = 900 + ctx.src.below(4) as u64;
                        let busy = net.clients.iter().any(|c| c.id == id && !c.client.is_disconnected());
                        // now and then the same player starts a second client object while the first is still alive (a second device,
                        // a restarted program): it can only get in once the first session is over
                        let second_device = busy && ctx.src.chance(120);
                        if second_device {
                            ctx.label("second_object_same_id");
                        }
                        if !busy || second_device {
                            if net.clients.iter().any(|c| c.id == id) {
                                ctx.label("reconnect");
                            }
                            let first = net.spawn(id, 0)?;
                            // twins: two objects of one id start together, both get challenged, one gets in; the other keeps answering its
                            // challenge until it times out - or until the winner quits at some tick within that time
                            if !busy && net.clients.len() < 6 && ctx.src.chance(50) {
                                let second = net.spawn(id, 0)?;
                                let within = (timeout_s * 1000 / tick_ms).max(4) as usize;
                                planned_quit = Some((first, second, net.tick + 2 + ctx.src.below(within) as u64));
                                ctx.label("second_object_same_id");
                                ctx.label("twin_objects_same_id");
                            }
                        }
                        Op::Spawn { id }
                    } else {
                        continue;
                    }
                }
            };
            ctx.op(&op);
        }
        // ---- heal -----------------------------------------------------------------------------
        net.faults = false;
        for c in net.clients.iter_mut() {
            c.silence = 0;
        }
        let heal_ticks = ((timeout_s * 1000 + 3000) / tick_ms + 10) as usize;
        for _ in 0..heal_ticks {
            net.do_tick(ctx)?;
        }
        for (ci, c) in net.clients.iter().enumerate() {
            let newest = net.clients.iter().rposition(|o| o.id == c.id) == Some(ci);
            if gentle && newest && !(c.client.is_connected() && net.server.is_connected(c.id) && net.st.client_addr(c.id) == Some(c.back_addr)) {
                // bounded liveness through the full stack: no disconnect operation, genuine datagrams kept flowing, then timeout + 3 s
                // without any fault: the handshake has completed in both layers on both sides
                return Err(Fail::new(
                    "full_stack_handshake_not_completed",
                    format!(
                        "gentle case: client object {ci} (id {}) is not connected on both sides after {heal_ticks} fault-free ticks: RenetClient connected={} connecting={}, netcode client reason {:?}, RenetServer connected={}, netcode server holds its session={}",
                        c.id,
                        c.client.is_connected(),
                        c.client.is_connecting(),
                        c.transport.disconnect_reason(),
                        net.server.is_connected(c.id),
                        net.st.client_addr(c.id) == Some(c.back_addr)
                    ),
                ));
            }
            if c.disconnect_decided {
                // the session ended on both sides
                if !c.client.is_disconnected() && c.ever_connected_client {
                    return Err(Fail::new(
                        "disconnect_not_propagated_to_client",
                        format!("a disconnect was decided for client object {ci} (id {}) but its RenetClient is still {} after {} fault-free ticks", c.id, if c.client.is_connected() { "connected" } else { "connecting" }, heal_ticks),
                    ));
                }
                if net.server.is_connected(c.id) && net.st.client_addr(c.id) == Some(c.back_addr) && c.client.is_disconnected() {
                    return Err(Fail::new("disconnect_not_propagated_to_server", format!("client object {ci} (id {}) is disconnected but the server still reports the id connected after {heal_ticks} fault-free ticks", c.id)));
                }
            } else if c.client.is_connected() && net.server.is_connected(c.id) && net.st.client_addr(c.id) == Some(c.back_addr) {
                // healthy session: everything reliable arrived
                for dir in 0..2 {
                    if c.got_ordered[dir] != c.sent[dir][2].len() {
                        return Err(Fail::new("e2e_liveness", format!("healthy session of client object {ci}: {} of {} ordered messages obtained ({}) after healing", c.got_ordered[dir], c.sent[dir][2].len(), if dir == 0 { "client->server" } else { "server->client" })));
                    }
                    if c.got_set[dir][1].len() != c.sent[dir][1].len() {
                        return Err(Fail::new("e2e_liveness", format!("healthy session of client object {ci}: {} of {} unordered messages obtained after healing", c.got_set[dir][1].len(), c.sent[dir][1].len())));
                    }
                }
                ctx.label("healthy_session_checked");
            }
        }
        if (net.corrupted + net.replayed) > 0 && ctx.has("event_connected") && (ctx.has("relay_drop") || ctx.has("relay_dup") || ctx.has("relay_delay") || ctx.has("relay_corrupt") || ctx.has("relay_replay")) {
            ctx.nontrivial = true;
        }
        Ok(())
    }
}
