//! C07 renetcode survives hostile datagrams and tokens: no panic, no state change.

use crate::engine::*;
use crate::sim::net::*;
use renetcode::{ClientAuthentication, ConnectToken, NetcodeClient};
use std::net::SocketAddr;
use std::time::Duration;

pub struct C07;

pub const B: usize = 0; // bystander, connected
pub const C: usize = 1; // victim, connected
pub const P: usize = 2; // pending at the server, client is responding
pub const R: usize = 3; // fresh client, requesting (server has never heard of it)
pub const D: usize = 4; // disconnected client
pub const UNKNOWN_ADDR: usize = 9;

pub fn ids() -> Vec<u64> {
    (0..5).map(|i| 40 + i as u64).collect()
}

/// Server with every protocol state present at once.
pub fn stage(seed: u64, timeout: i32) -> Result<NetWorld, Fail> {
    let mut nw = NetWorld::new(seed);
    let s = mk_server(0, 1, PROTO, 4, nw.now, true);
    nw.servers.push(s);
    for i in 0..5 {
        let token = nw.mint(&TokenSpec { client_id: 40 + i as u64, user: i as u64, expire_seconds: 600, timeout, addrs: vec![server_addr(0)], key: key(1), protocol: PROTO });
        nw.add_client(token, client_addr(i), i as u64);
    }
    let dt = Duration::from_millis(20);
    for c in [B, C, D] {
        if !nw.handshake(0, c, dt, 20) {
            return Err(Fail::new("stage", format!("honest handshake of staged client {c} failed")));
        }
    }
    // D disconnects cleanly
    if let Some(did) = nw.client_disconnect(D) {
        let d = nw.pool[did].clone();
        nw.pool[did].presented += 1;
        nw.server_recv(0, d.src, &d.bytes);
    }
    // P: request -> challenge, client now responding, server holds a pending entry
    if let Some(did) = nw.client_update(P, dt) {
        let d = nw.pool[did].clone();
        nw.pool[did].presented += 1;
        if let SrvOut::Send { did: r, .. } = nw.server_recv(0, d.src, &d.bytes) {
            let b = nw.pool[r].bytes.clone();
            nw.pool[r].presented += 1;
            nw.client_recv(P, &b);
        }
    }
    // (the server's table of half-open sessions is an internal detail: staging does not depend on it)
    if !nw.clients[P].client.is_connecting() {
        return Err(Fail::new("stage", "could not stage the pending session"));
    }
    Ok(nw)
}

#[derive(Clone, Copy, Debug, Hash, PartialEq, Eq)]
pub enum Target {
    ServerFromUnknown,
    ServerFromPending,
    ServerFromConnected,
    ServerFromBystander,
    /// the address of the client that connected and disconnected cleanly (no session, no half-open handshake)
    ServerFromGone,
    Client(usize),
}

impl Target {
    pub fn all() -> Vec<Target> {
        vec![
            Target::ServerFromUnknown,
            Target::ServerFromPending,
            Target::ServerFromConnected,
            Target::Client(C),
            Target::Client(P),
            Target::Client(R),
            Target::Client(D),
        ]
    }
    fn addr(self) -> SocketAddr {
        match self {
            Target::ServerFromUnknown => client_addr(UNKNOWN_ADDR),
            Target::ServerFromPending => client_addr(P),
            Target::ServerFromConnected => client_addr(C),
            Target::ServerFromBystander => client_addr(B),
            Target::ServerFromGone => client_addr(D),
            Target::Client(_) => server_addr(0),
        }
    }
}

struct Snap {
    server: ServerSnap,
    clients: Vec<ClientSnap>,
    pending: Vec<SocketAddr>,
}

fn snap(nw: &NetWorld) -> Snap {
    Snap { server: snap_server(&nw.servers[0].server, &ids()), clients: nw.clients.iter().map(|c| snap_client(&c.client)).collect(), pending: nw.servers[0].server.verif_pending_addrs() }
}

/// Present a datagram that is not authentic for the session it addresses; nothing observable may change.
pub fn present_forged(nw: &mut NetWorld, target: Target, bytes: &[u8], what: &str) -> Outcome {
    let before = snap(nw);
    match target {
        Target::Client(c) => {
            if let Some(p) = nw.client_recv(c, bytes) {
                return Err(Fail::new("forged_payload_surfaced", format!("client {c}: a non-authentic datagram ({what}, {} bytes) surfaced a payload of {} bytes", bytes.len(), p.len())));
            }
        }
        _ => {
            let out = nw.server_recv(0, target.addr(), bytes);
            match out {
                SrvOut::None => {}
                SrvOut::Send { .. } => {
                    // a reply is C19's subject; here only state matters
                }
                other => {
                    return Err(Fail::new("forged_accepted", format!("server: a non-authentic datagram ({what}, {} bytes, {target:?}) produced {other:?}", bytes.len())));
                }
            }
        }
    }
    let after = snap(nw);
    if before.server != after.server {
        let diff = before.server.per_client.iter().zip(after.server.per_client.iter()).find(|(a, b)| a != b).map(|(a, b)| format!("{:?} -> {:?}", (a.0, a.3, a.4), (b.0, b.3, b.4))).unwrap_or_default();
        let sig = if before.server.ids == after.server.ids && before.server.per_client.iter().zip(after.server.per_client.iter()).all(|(a, b)| (a.0, a.1, &a.2, a.3) == (b.0, b.1, &b.2, b.3)) { "forged_refreshed_timeout" } else { "forged_changed_server" };
        return Err(Fail::new(sig, format!("server state changed by a non-authentic datagram ({what}, {} bytes, {target:?}): {diff}", bytes.len())));
    }
    if before.pending != after.pending && !matches!(target, Target::ServerFromUnknown | Target::ServerFromPending) {
        return Err(Fail::new("forged_changed_pending", format!("pending table changed by a non-authentic datagram ({what}, {target:?})")));
    }
    for (i, (a, b)) in before.clients.iter().zip(after.clients.iter()).enumerate() {
        if a != b {
            return Err(Fail::new("forged_changed_client", format!("client {i} state changed by a non-authentic datagram ({what}, {} bytes): {a:?} -> {b:?}", bytes.len())));
        }
    }
    Ok(())
}

/// Genuine traffic afterwards is still accepted: the victim's payload surfaces, the pending client connects.
pub fn still_works(nw: &mut NetWorld) -> Outcome {
    let msg = b"still alive".to_vec();
    let did = nw.client_payload(C, &msg).map_err(|e| Fail::new("victim_cannot_send", e))?;
    let d = nw.pool[did].clone();
    match nw.server_recv(0, d.src, &d.bytes) {
        SrvOut::Payload { client_id, payload } if client_id == 41 && payload == msg => {}
        other => return Err(Fail::new("genuine_rejected_afterwards", format!("a genuine payload of the connected client was not surfaced after hostile traffic: {other:?}"))),
    }
    let did = nw.server_payload(0, 41, &msg).map_err(|e| Fail::new("server_cannot_send", e))?;
    let b = nw.pool[did].bytes.clone();
    if nw.client_recv(C, &b) != Some(msg.clone()) {
        return Err(Fail::new("genuine_rejected_afterwards", "a genuine server payload was not surfaced by the connected client after hostile traffic"));
    }
    if !nw.handshake(0, P, Duration::from_millis(260), 12) {
        return Err(Fail::new("pending_cannot_finish", format!("the pending client could not finish its handshake after hostile traffic (client state: {:?})", nw.clients[P].client.disconnect_reason())));
    }
    Ok(())
}

fn enum_lengths(seqlen: usize) -> Vec<usize> {
    let mut v = vec![0, 1, 17, 18, 19, 1 + seqlen, 1 + seqlen + 15, 1 + seqlen + 16, 1 + seqlen + 17, 1077, 1078, 1079, 1400];
    v.dedup();
    v
}

impl C07 {
    /// A connection request whose private token is sealed correctly (an unsecure server's key is public: all zero) but whose
    /// plaintext is hostile: address counts and type tags, timeouts, ids at their extremes. Only the no-unwind clause applies - the
    /// datagram is authentic by construction - and the session it may open is driven through updates of every length.
    fn sealed_token_case(&self, ctx: &mut Ctx) -> Outcome {
        use chacha20poly1305::{AeadInPlace, Key, KeyInit, XChaCha20Poly1305, XNonce};
        let secure = ctx.src.chance(70);
        let now0 = Duration::from_secs(ctx.src.pick(&[1000u64, 0, 1 << 33]));
        let max_clients = 1 + ctx.src.below(3);
        let mut srv = mk_server(0, 1, PROTO, max_clients, now0, secure);
        let skey = if secure { key(1) } else { [0u8; 32] };
        let client_id = ctx.src.pick(&[77u64, 0, u64::MAX, 1 << 63]);
        let timeout = ctx.src.pick(&[5i32, 0, -1, i32::MIN, i32::MAX, 1]);
        let mut pt: Vec<u8> = vec![];
        pt.extend_from_slice(&client_id.to_le_bytes());
        pt.extend_from_slice(&timeout.to_le_bytes());
        fn entry(pt: &mut Vec<u8>, a: SocketAddr) {
            match a {
                SocketAddr::V4(a) => {
                    pt.push(1);
                    pt.extend_from_slice(&a.ip().octets());
                }
                SocketAddr::V6(a) => {
                    pt.push(2);
                    pt.extend_from_slice(&a.ip().octets());
                }
            }
            pt.extend_from_slice(&a.port().to_le_bytes());
        }
        let shape = ctx.src.below(7);
        let mut what = format!("secure={secure} id={client_id} timeout={timeout} ");
        match shape {
            0 => {
                pt.extend_from_slice(&1u32.to_le_bytes());
                entry(&mut pt, server_addr(0));
                what += "one address";
            }
            1 => {
                // more well-formed entries than a token holds, the server's own address first, last or nowhere
                let k = ctx.src.pick(&[33u32, 32, 34, 64, 2, 100]);
                let own_at = ctx.src.pick(&[0u32, k - 1, 31, u32::MAX]);
                pt.extend_from_slice(&k.to_le_bytes());
                for j in 0..k {
                    if j == own_at {
                        entry(&mut pt, server_addr(0));
                    } else if j % 3 == 1 {
                        entry(&mut pt, server_alt_addr(1 + j as usize));
                    } else {
                        entry(&mut pt, server_addr(1 + j as usize));
                    }
                }
                what += &format!("{k} entries, own address at {own_at}");
            }
            2 => {
                let c = ctx.src.pick(&[0u32, 33, 255, u32::MAX, 2]);
                pt.extend_from_slice(&c.to_le_bytes());
                entry(&mut pt, server_addr(0));
                what += &format!("count {c} over one entry");
            }
            3 => {
                let t = ctx.src.pick(&[3u8, 255, 0, 2]);
                pt.extend_from_slice(&1u32.to_le_bytes());
                entry(&mut pt, server_addr(0));
                let at = pt.len() - 7;
                pt[at] = t;
                what += &format!("type tag {t}");
            }
            4 => {
                // NONE entries in front of, between and instead of the addresses
                let nones = ctx.src.pick(&[1u32, 31, 32, 40]);
                let with_addr = !ctx.src.chance(60);
                pt.extend_from_slice(&(nones + with_addr as u32).to_le_bytes());
                for _ in 0..nones {
                    pt.push(0);
                }
                if with_addr {
                    entry(&mut pt, server_addr(0));
                }
                what += &format!("{nones} NONE entries, address after them: {with_addr}");
            }
            5 => {
                let n = ctx.src.below(990);
                pt.extend_from_slice(&ctx.src.bytes(n));
                what += &format!("{n} random bytes");
            }
            _ => {
                pt.extend_from_slice(&2u32.to_le_bytes());
                entry(&mut pt, server_alt_addr(0));
                entry(&mut pt, server_addr(0));
                what += "both public addresses";
            }
        }
        let c2s = key(21);
        let s2c = key(22);
        pt.extend_from_slice(&c2s);
        pt.extend_from_slice(&s2c);
        pt.extend_from_slice(&user_data(3));
        pt.resize(1008, 0);
        let now_s = now0.as_secs();
        let expire = ctx.src.pick(&[now_s + 30, now_s, now_s + 1, u64::MAX, now_s.saturating_sub(1)]);
        let mut xn = [0u8; 24];
        xn.copy_from_slice(&ctx.src.bytes(24));
        let mut aad = [0u8; 29];
        aad[..13].copy_from_slice(b"NETCODE 1.02\0");
        aad[13..21].copy_from_slice(&PROTO.to_le_bytes());
        aad[21..29].copy_from_slice(&expire.to_le_bytes());
        let cipher = XChaCha20Poly1305::new(Key::from_slice(&skey));
        let Ok(tag) = cipher.encrypt_in_place_detached(XNonce::from_slice(&xn), &aad, &mut pt) else {
            return Err(Fail::new("harness_seal", "sealing failed").sig("harness_io"));
        };
        let mut dg = vec![0u8];
        dg.extend_from_slice(b"NETCODE 1.02\0");
        dg.extend_from_slice(&PROTO.to_le_bytes());
        dg.extend_from_slice(&expire.to_le_bytes());
        dg.extend_from_slice(&xn);
        dg.extend_from_slice(&pt);
        dg.extend_from_slice(&tag);
        what += &format!(" expire={}", expire as i128 - now_s as i128);
        ctx.op(&what);
        ctx.label("sealed_token_case");
        let from = client_addr(0);
        let mut seq = 0u64;
        let mut connected = false;
        let reply = own(srv.server.process_packet(from, &mut dg.clone()));
        if let OwnedResult::Send { bytes, .. } = &reply {
            ctx.label("sealed_token_answered");
            ctx.nontrivial = true;
            if let Some((ts, td)) = peek_challenge(bytes, PROTO, &s2c) {
                let mut resp = seal(&renetcode::verif::Packet::Response { token_sequence: ts, token_data: td }, PROTO, seq, &c2s);
                seq += 1;
                if let OwnedResult::Connected { client_id: got, .. } = own(srv.server.process_packet(from, &mut resp)) {
                    ctx.label("sealed_token_connected");
                    connected = true;
                    if got != client_id {
                        return Err(Fail::new("sealed_token_identity", format!("token seals client id {client_id}, ClientConnected reports {got}")));
                    }
                }
            }
        }
        // the session (or the half-open attempt) lives through updates of every length; the request is repeated in between
        for round in 0..6 {
            let dt = Duration::from_millis(ctx.src.pick(&[100u64, 0, 1000, 6000, 40_000, 1 << 32]));
            srv.server.update(dt);
            for id in srv.server.clients_id() {
                let _ = own(srv.server.update_client(id));
                let _ = srv.server.generate_payload_packet(id, &[round as u8; 9]).map(|(_, b)| b.len());
            }
            if ctx.src.chance(90) {
                let _ = own(srv.server.process_packet(from, &mut dg.clone()));
            }
            if connected && ctx.src.chance(128) {
                let mut ka = seal(&renetcode::verif::Packet::Payload(&[1, 2, 3]), PROTO, seq, &c2s);
                seq += 1;
                let _ = own(srv.server.process_packet(from, &mut ka));
            }
            let _ = (srv.server.connected_clients(), srv.server.max_clients(), srv.server.client_addr(client_id), srv.server.user_data(client_id).map(|u| u[0]));
        }
        Ok(())
    }

    fn token_case(&self, ctx: &mut Ctx) -> Outcome {
        let src = &mut ctx.src;
        renetcode::verif::set_rng_seed(Some(src.u32() as u64 + 1));
        let n_addrs = 1 + src.below(3);
        let addrs: Vec<SocketAddr> = (0..n_addrs).map(server_addr).collect();
        let token = ConnectToken::generate(Duration::from_secs(100), PROTO, 30, 5, 5, addrs, None, &key(1)).expect("valid token");
        let mut w = Vec::new();
        token.write(&mut w).map_err(|e| Fail::new("token_write", e.to_string()))?;
        // the smallest serialized token (one IPv4 address) has 1172 bytes; the edits below address fields at their fixed offsets
        if w.len() < 1172 {
            return Err(Fail::new("token_write", format!("ConnectToken::write produced {} bytes for a token with {} address(es)", w.len(), token.server_addresses.iter().flatten().count())));
        }
        const OFF_CREATE: usize = 8 + 13 + 8;
        const OFF_EXPIRE: usize = OFF_CREATE + 8;
        const OFF_TIMEOUT: usize = OFF_EXPIRE + 8 + 24 + 1024;
        const OFF_COUNT: usize = OFF_TIMEOUT + 4;
        let mut what = vec![];
        if src.chance(40) {
            let n = src.below(2200);
            w = src.bytes(n);
            what.push(format!("raw{n}"));
        } else {
            for _ in 0..1 + src.below(3) {
                match src.below(8) {
                    7 => {
                        // more well-formed entries than the 32 a token can hold (also exactly 32, and NONE entries among them)
                        if w.len() >= OFF_COUNT + 4 + 64 {
                            let k = src.pick(&[33u32, 32, 34, 40, 64, 300]);
                            let nones = src.chance(64);
                            let keys = w[w.len() - 64..].to_vec();
                            w.truncate(OFF_COUNT);
                            w.extend_from_slice(&k.to_le_bytes());
                            for j in 0..k {
                                if nones && j % 5 == 1 {
                                    w.push(0);
                                } else if j % 3 == 2 {
                                    w.push(2);
                                    w.extend_from_slice(&[0xfd, 0, 0, 0, 0, 0, 0, 0, 0, 0, 0, 0, 0, 0, (j >> 8) as u8, j as u8]);
                                    w.extend_from_slice(&(7000 + j as u16).to_le_bytes());
                                } else {
                                    w.push(1);
                                    w.extend_from_slice(&[10, 1, (j >> 8) as u8, j as u8]);
                                    w.extend_from_slice(&(7000 + j as u16).to_le_bytes());
                                }
                            }
                            w.extend_from_slice(&keys);
                            what.push(format!("entries={k},nones={nones}"));
                        }
                    }
                    0 => {
                        let c = src.pick(&[0u32, 1, 2, 32, 33, 255, u32::MAX]);
                        w[OFF_COUNT..OFF_COUNT + 4].copy_from_slice(&c.to_le_bytes());
                        what.push(format!("count={c}"));
                    }
                    1 => {
                        let t = src.pick(&[0u8, 1, 2, 3, 255]);
                        w[OFF_COUNT + 4] = t;
                        what.push(format!("type={t}"));
                    }
                    2 => {
                        // expire before create, zero, huge
                        let (c, e) = match src.below(4) {
                            0 => (100u64, 99u64),
                            1 => (u64::MAX, 0),
                            2 => (0, 0),
                            _ => (src.u64(), src.u64()),
                        };
                        w[OFF_CREATE..OFF_CREATE + 8].copy_from_slice(&c.to_le_bytes());
                        w[OFF_EXPIRE..OFF_EXPIRE + 8].copy_from_slice(&e.to_le_bytes());
                        what.push(format!("create={c},expire={e}"));
                    }
                    3 => {
                        let t = src.pick(&[0i32, -1, i32::MIN, i32::MAX, 1]);
                        w[OFF_TIMEOUT..OFF_TIMEOUT + 4].copy_from_slice(&t.to_le_bytes());
                        what.push(format!("timeout={t}"));
                    }
                    4 => {
                        let n = src.below(w.len() + 1);
                        w.truncate(n);
                        what.push(format!("truncate={n}"));
                    }
                    5 => {
                        if !w.is_empty() {
                            let i = src.below(w.len());
                            w[i] = src.u8();
                            what.push(format!("set@{i}"));
                        }
                    }
                    _ => {
                        // a NONE entry spliced in front of the addresses
                        if w.len() > OFF_COUNT + 4 {
                            let c = u32::from_le_bytes([w[OFF_COUNT], w[OFF_COUNT + 1], w[OFF_COUNT + 2], w[OFF_COUNT + 3]]);
                            w.insert(OFF_COUNT + 4, 0);
                            w[OFF_COUNT..OFF_COUNT + 4].copy_from_slice(&c.wrapping_add(1).to_le_bytes());
                            what.push("none_first".into());
                        }
                    }
                }
                if w.len() < OFF_COUNT + 8 {
                    break;
                }
            }
        }
        ctx.op(&what);
        if what.iter().any(|w| w.starts_with("entries=")) {
            ctx.label("token_many_entries");
        }
        ctx.label("token_case");
        let parsed = ConnectToken::read(&mut std::io::Cursor::new(&w));
        if let Ok(t) = parsed {
            ctx.label("token_parsed");
            ctx.nontrivial = true;
            let now = Duration::from_secs(ctx.src.pick(&[100u64, 0, 129, 130, 131, 1 << 40]));
            if let Ok(mut c) = NetcodeClient::new(now, ClientAuthentication::Secure { connect_token: t }) {
                for _ in 0..4 {
                    let dt = Duration::from_millis(ctx.src.pick(&[0u64, 16, 300, 1000, 6000, 40_000]));
                    let _ = c.update(dt).map(|(b, _)| b.len());
                    let n = ctx.src.pick(&[0usize, 17, 18, 40, 400]);
                    let mut junk = ctx.src.bytes(n);
                    let _ = c.process_packet(&mut junk);
                    let _ = (c.is_connected(), c.is_connecting(), c.disconnect_reason(), c.time_since_last_received_packet());
                }
                let _ = c.generate_payload_packet(&[1, 2, 3]);
                let _ = c.disconnect();
            }
        }
        renetcode::verif::set_rng_seed(None);
        Ok(())
    }

    fn datagram_case(&self, ctx: &mut Ctx) -> Outcome {
        let timeout = ctx.src.pick(&[15i32, 5, -1]);
        let mut nw = stage(ctx.src.u16() as u64, timeout)?;
        let max_ops = ctx.tier.pick(40, 120);
        let mut ops = 0;
        let mut elapsed = Duration::ZERO;
        while !ctx.src.exhausted() && ops < max_ops {
            ops += 1;
            match ctx.src.weighted(&[20, 4, 4]) {
                0 => {
                    let targets = Target::all();
                    let target = targets[ctx.src.below(targets.len())];
                    // what to present
                    let family = ctx.src.weighted(&[8, 5, 4, 3]);
                    let (bytes, what): (Vec<u8>, String) = match family {
                        0 => {
                            // a mutation of a genuine datagram of any session / direction
                            let i = ctx.src.below(nw.pool.len());
                            let (b, m) = mutate(&mut ctx.src, &nw.pool[i].bytes);
                            if m == Mutation::None {
                                continue;
                            }
                            (b, format!("mutation {m:?} of datagram {i} (kind {})", nw.pool[i].kind))
                        }
                        1 => {
                            // a genuine datagram that is not authentic here: replayed, another session's, another direction's
                            let i = ctx.src.below(nw.pool.len());
                            let d = nw.pool[i].clone();
                            let authentic_here = match target {
                                Target::Client(c) => d.from == Emitter::Server(0) && d.to == client_addr(c) && d.presented == 0,
                                Target::ServerFromUnknown | Target::ServerFromPending => d.kind == 0 || (d.from != Emitter::Server(0) && d.src == target.addr() && (d.presented == 0 || d.kind == 3)),
                                _ => d.from != Emitter::Server(0) && d.src == target.addr() && d.presented == 0,
                            };
                            if authentic_here {
                                continue;
                            }
                            (d.bytes.clone(), format!("genuine datagram {i} (kind {}, from {:?}, presented {}x) at the wrong place or replayed", d.kind, d.from, d.presented))
                        }
                        2 => {
                            // well-formed prefix, boundary length, chosen sequence bytes
                            let kind = ctx.src.below(8) as u8;
                            let seqlen = ctx.src.pick(&[1usize, 0, 2, 8, 9, 15]);
                            let lens = enum_lengths(seqlen);
                            let len = lens[ctx.src.below(lens.len())];
                            let fill = ctx.src.pick(&[0u8, 0xff, 0x80]);
                            let mut b = vec![fill; len];
                            if len > 0 {
                                b[0] = kind | ((seqlen as u8) << 4);
                            }
                            (b, format!("prefix kind {kind} seqlen {seqlen} len {len} fill {fill:#x}"))
                        }
                        _ => {
                            let n = ctx.src.below(1401);
                            let mut b = vec![0u8; n];
                            fill_stream(ctx.src.u32() as u64, &mut b);
                            (b, format!("random {n} bytes"))
                        }
                    };
                    ctx.op(&(target, &what));
                    if bytes.len() >= 18 && !matches!(target, Target::ServerFromUnknown | Target::Client(R) | Target::Client(D)) {
                        ctx.label("keyed_path");
                        ctx.nontrivial = true;
                    }
                    ctx.label(match target {
                        Target::ServerFromUnknown | Target::ServerFromGone => "at_unknown",
                        Target::ServerFromPending => "at_pending",
                        Target::ServerFromConnected | Target::ServerFromBystander => "at_connected",
                        Target::Client(_) => "at_client",
                    });
                    present_forged(&mut nw, target, &bytes, &what)?;
                }
                1 => {
                    // time passes without any traffic (so a refreshed timer would be visible later)
                    let dt = Duration::from_millis(ctx.src.pick(&[50u64, 200, 500, 1000]));
                    if elapsed + dt < Duration::from_millis(4000) {
                        elapsed += dt;
                        nw.now += dt;
                        nw.server_advance(0, dt);
                        for c in [B, C] {
                            // clients only advance their clocks; their keep-alives are not delivered
                            let _ = nw.client_update(c, dt);
                        }
                        ctx.op(&("silence", dt.as_millis() as u64));
                    }
                }
                _ => {
                    // honest exchange between the bystander and the server
                    let msg = vec![ops as u8; 1 + ctx.src.below(40)];
                    if let Ok(did) = nw.client_payload(B, &msg) {
                        let d = nw.pool[did].clone();
                        nw.pool[did].presented += 1;
                        match nw.server_recv(0, d.src, &d.bytes) {
                            SrvOut::Payload { client_id: 40, payload } if payload == msg => {}
                            other => return Err(Fail::new("bystander_disturbed", format!("bystander payload not surfaced: {other:?}"))),
                        }
                    }
                    ctx.op(&"bystander_payload");
                }
            }
        }
        still_works(&mut nw)?;
        Ok(())
    }
}

/// Every single-bit flip and every truncation of genuine datagrams, presented to the live endpoint they were meant for:
/// nothing observable may change (the decode-only version of this enumeration is C17's).
/// A client's connection request travels in the clear. Somebody who saw it (or only its last bytes) sends a damaged copy from another
/// address BEFORE the genuine one reaches the server - one bit flipped in the sealed token, its nonce, or the clear header fields,
/// the trailing authentication tag intact. That datagram is not authentic: it must leave no trace, in particular the genuine client's
/// handshake from its own address must complete afterwards.
fn preempted_request(index: u64, ctx: &mut Ctx) -> Outcome {
    let from = [Target::ServerFromUnknown, Target::ServerFromPending, Target::ServerFromConnected][(index % 3) as usize];
    let k = index / 3;
    // byte offsets: 30 positions in the header / nonce (1..54), 100 in the sealed token before its tag (54..1062)
    let byte = if k < 30 { 1 + (k as usize * 53 / 30) } else { 54 + ((k as usize - 30) * 1008 / 100) };
    let bit = (index % 8) as u8;
    let mut nw = stage(7, 15)?;
    ctx.op(&("preempted_request", from, byte, bit));
    // R has not sent anything yet: its first request is produced now and held back
    let Some(did) = nw.client_update(R, Duration::from_millis(20)) else { return Err(Fail::new("stage", "fresh client produced no request").sig("harness_io")) };
    let genuine = nw.pool[did].clone();
    if genuine.kind != 0 || genuine.bytes.len() != 1078 {
        return Err(Fail::new("stage", "first datagram of a fresh client is not a 1078-byte request").sig("harness_io"));
    }
    let mut forged = genuine.bytes.clone();
    forged[byte] ^= 1 << bit;
    present_forged(&mut nw, from, &forged, &format!("request of another client with bit {bit} of byte {byte} flipped, presented before the genuine one"))?;
    // now the genuine request arrives from its own address: challenge, and the handshake completes
    nw.pool[did].presented += 1;
    match nw.server_recv(0, genuine.src, &genuine.bytes) {
        SrvOut::Send { did: r, .. } => {
            let b = nw.pool[r].bytes.clone();
            nw.client_recv(R, &b);
        }
        other => {
            return Err(Fail::new(
                "genuine_rejected_afterwards",
                format!("the genuine request of a fresh client got {other:?} after a damaged copy of it (bit {bit} of byte {byte}) had been presented from {from:?}"),
            ))
        }
    }
    if !nw.handshake(0, R, Duration::from_millis(260), 12) {
        return Err(Fail::new("genuine_rejected_afterwards", format!("a fresh client could not finish its handshake after a damaged copy of its request (bit {bit} of byte {byte}) had been presented from {from:?}")));
    }
    ctx.label("preempted_request");
    ctx.nontrivial = true;
    Ok(())
}

/// A genuine reply of the server that its client has already received once - the challenge at the client that is answering it, the
/// accepting keep-alive at the connected client - is presented again after some time (an on-path party replays it): a datagram
/// presented for the second time is not authentic, nothing may change, in particular not the time since the last received packet.
fn replayed_reply(index: u64, ctx: &mut Ctx) -> Outcome {
    let dt = Duration::from_millis([300u64, 1000, 3000][(index % 3) as usize]);
    let (c, kind) = if (index / 3) % 2 == 0 { (P, 2u8) } else { (C, 4u8) };
    let times = 1 + (index / 6) % 2;
    let mut nw = stage(7, 15)?;
    ctx.op(&("replayed_reply", c, kind, dt.as_millis() as u64, times));
    let Some(did) = nw.pool.iter().position(|d| d.kind == kind && d.to == client_addr(c) && d.presented > 0 && matches!(d.from, Emitter::Server(0))) else {
        return Err(Fail::new("stage", format!("no delivered datagram of kind {kind} for client {c} in the staged world")).sig("harness_io"));
    };
    let bytes = nw.pool[did].bytes.clone();
    for round in 0..times {
        // time passes on every clock; what the endpoints emit meanwhile is not delivered
        nw.now += dt;
        nw.server_advance(0, dt);
        for i in 0..nw.clients.len() {
            nw.client_update(i, dt);
        }
        present_forged(&mut nw, Target::Client(c), &bytes, &format!("the server's own datagram of kind {kind}, delivered once before, presented again {} ms later (round {round})", dt.as_millis()))?;
    }
    ctx.label("replayed_reply");
    ctx.nontrivial = true;
    Ok(())
}

/// The response that completed a client's handshake - delivered once, consumed - is presented to the server again from that client's
/// own address after some time: while the session it opened is alive (bystander, victim) and after it ended cleanly (the gone client).
/// A datagram presented for the second time is not authentic: no client connects, nothing changes, no timeout is refreshed.
fn replayed_response(index: u64, ctx: &mut Ctx) -> Outcome {
    let dt = Duration::from_millis([300u64, 1000, 3000][(index % 3) as usize]);
    let (c, target) = [(B, Target::ServerFromBystander), (C, Target::ServerFromConnected), (D, Target::ServerFromGone)][((index / 3) % 3) as usize];
    let times = 1 + (index / 9) % 2;
    let mut nw = stage(7, 15)?;
    ctx.op(&("replayed_response", c, dt.as_millis() as u64, times));
    let Some(did) = nw.pool.iter().rposition(|d| d.kind == 3 && d.src == client_addr(c) && d.presented > 0 && matches!(d.from, Emitter::Client(_))) else {
        return Err(Fail::new("stage", format!("no delivered response of client {c} in the staged world")).sig("harness_io"));
    };
    let bytes = nw.pool[did].bytes.clone();
    for round in 0..times {
        // time passes on the server's clock only (the clients' own traffic is withheld, so they are not touched)
        nw.now += dt;
        nw.server_advance(0, dt);
        present_forged(&mut nw, target, &bytes, &format!("the response that completed the handshake of client {c}, presented again {} ms later (round {round})", dt.as_millis()))?;
    }
    ctx.label("replayed_response");
    ctx.nontrivial = true;
    Ok(())
}

const SEALED_LENS: [usize; 17] = [0, 1, 7, 8, 9, 100, 299, 300, 301, 307, 308, 309, 400, 1200, 1300, 1301, 1382];

/// A peer that holds a session key (anybody with a valid token does) seals a datagram of any kind around a body of any length - sealed
/// correctly, with a fresh sequence number, so it is authentic and may be acted upon; what is asserted is that the call returns.
fn sealed_body(index: u64, ctx: &mut Ctx) -> Outcome {
    let li = (index % SEALED_LENS.len() as u64) as usize;
    let kind = 1 + ((index / SEALED_LENS.len() as u64) % 15) as u8;
    let which = (index / (SEALED_LENS.len() as u64 * 15)) % 4;
    let len = SEALED_LENS[li];
    let mut nw = stage(7, 15)?;
    let (target, key) = match which {
        0 => (Target::ServerFromPending, nw.clients[P].token.client_to_server_key),
        1 => (Target::ServerFromConnected, nw.clients[C].token.client_to_server_key),
        2 => (Target::Client(C), nw.clients[C].token.server_to_client_key),
        _ => (Target::Client(P), nw.clients[P].token.server_to_client_key),
    };
    ctx.op(&("sealed_body", kind, len, target));
    // the harness's own sealing is checked against the library first: a well-formed payload sealed this way must surface
    if index == 0 {
        let probe = seal_raw(5, 1 << 20, b"probe", PROTO, &nw.clients[C].token.client_to_server_key);
        match nw.server_recv(0, client_addr(C), &probe) {
            SrvOut::Payload { payload, .. } if payload == b"probe" => {}
            other => return Err(Fail::new("stage", format!("the harness's own sealing is not accepted by the library: {other:?}")).sig("harness_io")),
        }
    }
    let mut body = vec![0u8; len];
    fill_stream(index, &mut body);
    // two datagrams: all-zero body fields, then pseudo-random ones; fresh sequence numbers far above anything used so far
    for (round, b) in [vec![0u8; len], body].into_iter().enumerate() {
        let dgram = seal_raw(kind, (1 << 30) + 2 * index + round as u64, &b, PROTO, &key);
        match target {
            Target::Client(c) => {
                nw.client_recv(c, &dgram);
            }
            _ => {
                nw.server_recv(0, target.addr(), &dgram);
            }
        }
    }
    // every later call still returns
    nw.now += Duration::from_millis(300);
    nw.server_tick(0, Duration::from_millis(300));
    for c in 0..nw.clients.len() {
        nw.client_update(c, Duration::from_millis(300));
    }
    ctx.label("sealed_body");
    ctx.nontrivial = true;
    Ok(())
}

fn genuine_tamper(index: u64, ctx: &mut Ctx) -> Outcome {
    let per = 360 * 8 + 360;
    let sample = (index / per) as usize;
    let k = (index % per) as usize;
    let mut nw = stage(7, 15)?;
    // fresh genuine datagrams of every post-handshake kind, never presented
    let msg = vec![0x5au8; 40];
    let c_payload = nw.client_payload(C, &msg).map_err(|e| Fail::new("stage", e))?;
    let s_payload = nw.server_payload(0, 41, &msg).map_err(|e| Fail::new("stage", e))?;
    nw.now += Duration::from_millis(300);
    let c_keepalive = nw.client_update(C, Duration::from_millis(300));
    let p_response = nw.client_update(P, Duration::from_millis(300));
    nw.server_advance(0, Duration::from_millis(300));
    let s_keepalive = match nw.server_update_client(0, 41) {
        SrvOut::Send { did, .. } => Some(did),
        _ => None,
    };
    // the challenge and the connect keep-alive of the staging (already presented once: replays of them are forged too)
    let challenge = nw.pool.iter().position(|d| d.kind == 2 && d.to == client_addr(P));
    let request = nw.pool.iter().position(|d| d.kind == 0 && d.src == client_addr(P));
    let samples: Vec<(Option<usize>, Target)> = vec![
        (Some(c_payload), Target::ServerFromConnected),
        (Some(s_payload), Target::Client(C)),
        (c_keepalive, Target::ServerFromConnected),
        (s_keepalive, Target::Client(C)),
        (p_response, Target::ServerFromPending),
        (challenge, Target::Client(P)),
        (request, Target::ServerFromConnected),
        (Some(c_payload), Target::ServerFromBystander),
    ];
    let Some((Some(did), target)) = samples.get(sample).copied() else { return Ok(()) };
    let bytes = nw.pool[did].bytes.clone();
    let tampered: Vec<u8> = if k < 360 * 8 {
        if k / 8 >= bytes.len() {
            return Ok(());
        }
        let mut b = bytes.clone();
        b[k / 8] ^= 1 << (k % 8);
        // the request kind is not sealed as a packet: only its token and bound fields are; a flipped bit in the unused
        // sequence-length nibble of its prefix leaves a valid request (and a request is never authentic for a connected address anyway)
        b
    } else {
        let n = k - 360 * 8;
        if n >= bytes.len() {
            return Ok(());
        }
        bytes[..n].to_vec()
    };
    ctx.op(&(sample, k));
    ctx.nontrivial = true;
    let what = format!("tampered genuine datagram (sample {sample}, kind {}, variant {k})", nw.pool[did].kind);
    present_forged(&mut nw, target, &tampered, &what)?;
    if index % 211 == 0 {
        still_works(&mut nw)?;
    }
    Ok(())
}

impl Property for C07 {
    fn id(&self) -> &'static str {
        "C07"
    }
    fn level(&self) -> &'static str {
        "exploration"
    }
    fn rule(&self) -> String {
        "Floods (enumerated): every target endpoint is handed all 256 prefix bytes twice in a row at each length class, 512 hostile datagrams with nothing genuine in between, under the same per-datagram oracles, then genuine traffic must still work. A case stages a secure server holding every protocol state at once (unknown address, pending address, connected victim, connected bystander; clients requesting, responding, connected, disconnected) and presents non-authentic datagrams to the server from every source-address class and to every client: mutations (bit flips in prefix / sequence / body / tag, truncations, extensions, prefix replacement) of genuine datagrams of any session and direction, genuine datagrams replayed or presented at the wrong endpoint, well-formed prefixes with boundary lengths and all-zero / all-ff sequence bytes, random bytes 0..1400; silence is interleaved so a refreshed timer shows. Enumerated: all 256 prefix bytes x 13 boundary lengths x 2 fills x 7 targets; every single-bit flip and every truncation of eight fresh genuine datagrams (payload, keep-alive, response, challenge, request; both directions) presented to the live endpoint they were meant for. Replayed replies (enumerated): the challenge at the client answering it and the accepting keep-alive at the connected client, delivered once before, are presented again 0.3 / 1 / 3 s later, once or twice - nothing may change, the time since the last received packet included. Pre-empted requests (enumerated): a damaged copy of a fresh client's request (one bit flipped in the header, the nonce or the sealed token, the trailing tag intact; 130 positions) is presented from an unknown, the pending or the connected address before the genuine request arrives - nothing may change and the genuine handshake from the client's own address must complete. Sealed bodies (enumerated): a peer holding a session key (the pending client, the connected client, the server towards each of them) seals every packet kind 1..15 around bodies of 17 lengths from 0 to 1382 bytes (all-zero and pseudo-random) with a fresh sequence number - authentic datagrams whose body has the wrong size for their kind; no-unwind clause only. Tokens: raw bytes and field-wise mutations of valid serialisations (address count 0/33/2^32-1, 32..300 well-formed entries with and without NONE entries, type tags 0/1/2/3/255, expire < create, zero/negative timeouts, truncations) through ConnectToken::read -> NetcodeClient::new -> update / process_packet / generate_payload_packet / disconnect. Sealed hostile tokens: connection requests whose private token is sealed correctly - an unsecure server's key is public, a secure server's backend may err - around a hostile plaintext (0..100 well-formed address entries with the server's own address first, last, at slot 31 or nowhere, lying counts, unknown type tags, up to 40 NONE entries, random bytes; timeouts 0, negative, i32 extremes; ids 0, 2^63, 2^64-1; expiry at, around and far beyond the server second, clocks 0 and 2^33 s), answered as the client would (response sealed with the key the plaintext names) and the resulting session driven through updates of 0 ms .. 2^32 ms, repeated requests, payloads, keep-alives and accessors - no-unwind clause only. Oracles: no call unwinds (overflow checks on); a non-authentic datagram (by provenance) yields neither Payload nor ClientConnected nor ClientDisconnected, client process_packet returns None, and the snapshot of clients_id / connected_clients / per-client addr, user data, connectedness and time_since_last_received_packet (server) and connected / connecting / reason / time_since_last_received_packet / server_addr (every client) is unchanged; afterwards a genuine payload still surfaces in both directions and the pending client completes its handshake. Non-trivial: a datagram of >= 18 bytes presented from a known address or to a client past the request state (reaches the keyed decode path), or a mutated token that parses. Distinct = hash of the decoded case.".into()
    }
    fn assumptions(&self) -> Vec<String> {
        vec![
            "authenticity is decided by provenance: at a connected address or at a client only an unmodified, not yet presented datagram emitted by that session's peer is authentic; at a pending or unknown address a request with a valid token is authentic too".into(),
            "single-address tokens (a client that failed over to another server may legitimately accept an old challenge; not generated)".into(),
        ]
    }
    fn pbt(&self, tier: Tier) -> PbtCfg {
        PbtCfg { cases: tier.pick(150_000, 3_000_000), max_len: tier.pick(600, 1800), shrink_ms: 120_000 }
    }
    fn required_labels(&self) -> Vec<&'static str> {
        vec!["keyed_path", "at_unknown", "at_pending", "at_connected", "at_client", "token_case", "token_parsed", "token_many_entries", "sealed_token_case", "sealed_token_answered", "sealed_token_connected", "flood", "sealed_body", "preempted_request", "replayed_reply", "replayed_response"]
    }
    fn enums(&self, _tier: Tier) -> Vec<(&'static str, u64)> {
        // genuine_tamper: 8 sample datagrams x (every bit of the first 360 bytes + every truncation up to 360)
        vec![("prefix_length_grid", 256 * 13 * 2 * 7), ("genuine_tamper", 8 * (360 * 8 + 360)), ("floods", 13 * 2 * 7), ("sealed_bodies", 4 * 15 * SEALED_LENS.len() as u64), ("preempted_request", 3 * 130), ("replayed_reply", 12), ("replayed_response", 18)]
    }
    fn run_enum(&self, name: &str, index: u64, ctx: &mut Ctx) -> Outcome {
        if name == "genuine_tamper" {
            return genuine_tamper(index, ctx);
        }
        if name == "sealed_bodies" {
            return sealed_body(index, ctx);
        }
        if name == "preempted_request" {
            return preempted_request(index, ctx);
        }
        if name == "replayed_reply" {
            return replayed_reply(index, ctx);
        }
        if name == "replayed_response" {
            return replayed_response(index, ctx);
        }
        if name == "floods" {
            // the same endpoint is handed all 256 prefix bytes twice in a row (512 hostile datagrams, nothing genuine in between):
            // whatever an endpoint counts or remembers about rejected datagrams must not wear out
            let li = (index % 13) as usize;
            let fill = if (index / 13) % 2 == 0 { 0x00u8 } else { 0xff };
            let target = Target::all()[((index / 26) % 7) as usize];
            ctx.op(&("flood", li, fill, target));
            let mut nw = stage(7, 15)?;
            for round in 0..2 {
                for prefix in 0..=255u8 {
                    let seqlen = (prefix >> 4) as usize;
                    let lens = [0, 1, 17, 18, 19, 1 + seqlen, 1 + seqlen + 15, 1 + seqlen + 16, 1 + seqlen + 17, 1077, 1078, 1079, 1400];
                    let len = lens[li];
                    let mut b = vec![fill; len];
                    if len > 0 {
                        b[0] = prefix;
                    }
                    present_forged(&mut nw, target, &b, &format!("flood round {round}: prefix {prefix:#04x} len {len} fill {fill:#04x}"))?;
                }
            }
            still_works(&mut nw)?;
            ctx.label("flood");
            ctx.nontrivial = true;
            return Ok(());
        }
        let prefix = (index % 256) as u8;
        let li = ((index / 256) % 13) as usize;
        let fill = if (index / (256 * 13)) % 2 == 0 { 0x00u8 } else { 0xff };
        let target = Target::all()[((index / (256 * 13 * 2)) % 7) as usize];
        let seqlen = (prefix >> 4) as usize;
        let lens = [0, 1, 17, 18, 19, 1 + seqlen, 1 + seqlen + 15, 1 + seqlen + 16, 1 + seqlen + 17, 1077, 1078, 1079, 1400];
        let len = lens[li];
        let mut b = vec![fill; len];
        if len > 0 {
            b[0] = prefix;
        }
        ctx.op(&(prefix, len, fill, target));
        let mut nw = stage(7, 15)?;
        if len >= 18 && !matches!(target, Target::ServerFromUnknown | Target::Client(R) | Target::Client(D)) {
            ctx.nontrivial = true;
        }
        present_forged(&mut nw, target, &b, &format!("prefix {prefix:#04x} len {len} fill {fill:#04x}"))?;
        if index % 97 == 0 {
            still_works(&mut nw)?;
        }
        Ok(())
    }
    fn run_choices(&self, ctx: &mut Ctx) -> Outcome {
        if ctx.src.chance(50) {
            self.token_case(ctx)
        } else if ctx.src.chance(40) {
            self.sealed_token_case(ctx)
        } else {
            self.datagram_case(ctx)
        }
    }
}
