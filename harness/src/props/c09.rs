//! C09 Channel memory budgets: never exceeded, never leaked, fully returned after drain.

use super::simcase::*;
use crate::engine::*;
use crate::sim::driver::*;
use crate::sim::world::*;
use renet::{ChannelError, DisconnectReason};

pub struct C09;

pub const SIG_A: &str = "C09-A:receiver-reserves-whole-slices";
pub const SIG_B: &str = "C09-B:ordered-head-of-line-buffering";

fn spec(tier: Tier) -> SimSpec {
    let mut ops = default_ops();
    ops.max_ops = tier.pick(400, 2500);
    ops.ops = [100, 70, 20, 10, 20, 20, 16];
    ops.data_faults = [130, 50, 46, 30];
    ops.prompt_drain = 150;
    ops.max_slices = 5;
    ops.sizes = [40, 70, 40, 60, 46];
    SimSpec {
        cfg: CfgSpec {
            kinds: [3, 3, 4],
            chans: (1, 3),
            // 4_800 and 12_000 are multiples of the slice size: a sliced message can fill such a budget to the byte
            mems: &[8_000, 3_000, 5_000, 4_800, 16_000, 12_000, 64_000, 200_000],
            budgets: &[60_000, 6_000, 2_400, 1_000_000],
            resends: RESENDS,
            clients: (1, 1),
            must_have: None,
        },
        ops,
        oracles: Oracles { memory: true, release: true, ..Default::default() },
        liveness: false,
        quiescence: true,
        quiescence_memory: true,
    }
}

/// A ReceiveChannelError{MaxMemory} with a prompt, polite application: explained by one of the two
/// recorded design-level findings, or a violation.
fn classify_mem_disconnect(w: &World, d: Dir, ch: u8) -> Fail {
    let cm = &w.dirs[d.idx()].chans[&ch];
    let max = cm.cfg.max_mem;
    let held: Vec<&Msg> = cm.msgs.iter().filter(|m| m.obtained == 0 && m.handed_parts > 0).collect();
    let exact: usize = held.iter().map(|m| m.len()).sum();
    let rounded: usize = held.iter().map(|m| if m.parts > 1 { m.parts * SLICE } else { m.len() }).sum();
    let who = format!("client {} {} channel {ch} ({:?}, budget {max})", d.client, if d.to_client { "s2c" } else { "c2s" }, cm.cfg.kind);
    if rounded > max {
        // B: the sender already released (was acknowledged for) a message the receiver still has to hold,
        // which with a promptly draining application only happens behind a missing lower id
        if cm.cfg.kind == Kind::Ordered {
            if let Some(m) = held.iter().find(|m| m.released) {
                let cursor = cm.msgs.iter().find(|m| m.obtained == 0).map(|m| m.mid).unwrap_or(0);
                return Fail::new(
                    "mem_disconnect",
                    format!(
                        "{who}: receiver ran out of channel memory while buffering messages (e.g. id {}, already acknowledged and released by the sender) behind ordered id {cursor}; held {exact} bytes, sender stayed within budget, application drains promptly",
                        m.mid
                    ),
                )
                .sig(SIG_B);
            }
        }
        if exact <= max {
            return Fail::new(
                "mem_disconnect",
                format!("{who}: receiver ran out of channel memory: messages in reassembly total {exact} bytes (within budget) but are reserved as whole slices = {rounded} bytes"),
            )
            .sig(SIG_A);
        }
    }
    Fail::new(
        "mem_disconnect",
        format!("{who}: receiver disconnected for exhausted channel memory although the held messages need only {rounded} bytes (exact {exact}), the sender stayed within budget and the application drains promptly"),
    )
}

/// A memory disconnect with a polite, promptly draining application is a known finding or a violation.
fn mem_disconnects(w: &World, ctx: &mut Ctx) -> Outcome {
    for i in 0..w.cfg.n_clients {
        for to_client in [false, true] {
            let d = Dir { client: i, to_client };
            if let Some(DisconnectReason::ReceiveChannelError { channel_id, error: ChannelError::ReliableChannelMaxMemoryReached }) = w.receiver_reason(d) {
                if w.dirs[d.idx()].chans.contains_key(&channel_id) {
                    if w.prompt_drain {
                        return Err(classify_mem_disconnect(w, d, channel_id));
                    } else {
                        ctx.label("mem_disconnect_undrained");
                    }
                }
            }
        }
    }
    Ok(())
}

/// Minimal hand-written histories of the two open findings (witnesses).
fn directed(index: u64, ctx: &mut Ctx) -> Outcome {
    let cfg = WorldCfg {
        bytes_per_tick: 60_000,
        s2c: vec![Chan { id: 0, kind: Kind::Ordered, max_mem: 3000, resend_ms: 100 }],
        c2s: vec![Chan { id: 0, kind: Kind::Ordered, max_mem: 3000, resend_ms: 100 }],
        n_clients: 1,
        id_scheme: 0,
    };
    let mut w = World::new(cfg, Oracles { memory: true, release: true, ..Default::default() });
    w.prompt_drain = true;
    let d = Dir { client: 0, to_client: true };
    ctx.nontrivial = true;
    if index == 0 {
        // A: one 2401-byte message under a 3000-byte budget
        ctx.op(&"A: budget 3000, one ordered message of 2401 bytes, no faults");
        if !w.send(d, 0, 2401, true, 0)? {
            return Err(Fail::new("directed_setup", "can_send_message refused 2401 bytes under a 3000-byte budget"));
        }
        w.advance(16);
        for pid in w.flush(d)? {
            w.enqueue(pid, 0);
        }
        w.deliver_due(d, None)?;
        w.step_check()?;
        mem_disconnects(&w, ctx)?;
    } else {
        // B: m0 lost for good, m1.. sent as acks free the sender
        ctx.op(&"B: budget 3000, ordered m0 (1000 B) always lost, then 1000-byte messages sent whenever can_send_message allows");
        w.send(d, 0, 1000, true, 0)?;
        let m0 = w.dirs[d.idx()].chans[&0].msgs[0].mid;
        w.blackhole = Some((d, 0, m0));
        for _ in 0..12 {
            w.send(d, 0, 1000, true, 0)?;
            w.advance(150);
            for pid in w.flush(d)? {
                w.enqueue(pid, 0);
            }
            w.deliver_due(d, None)?;
            w.step_check()?;
            mem_disconnects(&w, ctx)?;
            for pid in w.flush(d.rev())? {
                w.enqueue(pid, 0);
            }
            w.deliver_due(d.rev(), None)?;
            w.step_check()?;
        }
    }
    Ok(())
}

/// One reliable message of more than 2^16 slices (the decoder allows up to 10^6) under a budget that admits it, no faults:
/// after it was received, obtained and acknowledged both channels account nothing.
fn huge_message(index: u64, ctx: &mut Ctx) -> Outcome {
    let slices = [65_537usize, 65_536, 70_001][index as usize % 3];
    let len = (slices - 1) * SLICE + 1;
    let budget = 90_000_000usize;
    ctx.op(&("huge_message", slices, len));
    let kind = if index % 2 == 0 { Kind::Ordered } else { Kind::Unordered };
    let cfg = WorldCfg {
        bytes_per_tick: 200_000_000,
        s2c: vec![Chan { id: 0, kind, max_mem: budget, resend_ms: 300 }],
        c2s: vec![Chan { id: 0, kind, max_mem: budget, resend_ms: 300 }],
        n_clients: 1,
        id_scheme: 0,
    };
    let mut w = World::new(cfg, Oracles { memory: true, ..Default::default() });
    w.prompt_drain = true;
    let d = Dir { client: 0, to_client: true };
    if !w.send(d, 0, len, true, 0)? {
        return Err(Fail::new("directed_setup", format!("can_send_message refused {len} bytes under a budget of {budget}")));
    }
    for _ in 0..4 {
        w.advance(50);
        for dir in [d, d.rev()] {
            for pid in w.flush(dir)? {
                w.enqueue(pid, 0);
            }
            w.deliver_due(dir, None)?;
            w.drain_all(dir)?;
        }
        mem_disconnects(&w, ctx)?;
    }
    let got = w.dirs[d.idx()].chans[&0].msgs[0].obtained;
    if got != 1 {
        return Err(Fail::new("huge_message_lost", format!("a message of {slices} slices was obtained {got} times after four loss-free ticks")));
    }
    let (Some(s), Some(r)) = (w.sender(d), w.receiver(d)) else { return Err(Fail::new("directed_setup", "connection missing")) };
    let avail = s.channel_available_memory(0);
    let recv_used = r.verif_receive_memory(0).map(|m| m.0).unwrap_or(0);
    if avail != budget || recv_used != 0 {
        return Err(Fail::new(
            "huge_message_accounting",
            format!("a message of {slices} slices ({len} bytes) was received, obtained and acknowledged without any fault, yet the send channel offers {avail} of {budget} bytes and the receive channel accounts {recv_used}"),
        ));
    }
    ctx.label("huge_message");
    ctx.nontrivial = true;
    Ok(())
}

/// A connection that carries messages in one direction only (the other direction's channel list is empty - upload-only or
/// download-only configurations are legal): the receiving side has nothing to send but acknowledgements, and those must still
/// flow, or the sender's budget never comes back and it is disconnected although its traffic stays within budget.
fn one_way(index: u64, ctx: &mut Ctx) -> Outcome {
    let to_client = index % 2 == 0;
    let kind = [Kind::Ordered, Kind::Unordered, Kind::Unreliable][(index / 2) as usize % 3];
    let len = [700usize, 2 * SLICE + 100][(index / 6) as usize % 2];
    let budget = 12_000usize;
    ctx.op(&("one_way", to_client, kind, len));
    let chan = vec![Chan { id: 0, kind, max_mem: budget, resend_ms: 100 }];
    let cfg = WorldCfg { bytes_per_tick: 60_000, s2c: if to_client { chan.clone() } else { vec![] }, c2s: if to_client { vec![] } else { chan }, n_clients: 1, id_scheme: 0 };
    let mut w = World::new(cfg, Oracles { memory: true, content: true, ..Default::default() });
    w.prompt_drain = true;
    let d = Dir { client: 0, to_client };
    let mut accepted = 0usize;
    for tick in 0..60 {
        if tick < 40 && w.send(d, 0, len, true, 0)? {
            accepted += 1;
        }
        w.advance(50);
        for dir in [d, d.rev()] {
            for pid in w.flush(dir)? {
                w.enqueue(pid, 0);
            }
            w.deliver_due(dir, None)?;
            w.drain_all(dir)?;
        }
        mem_disconnects(&w, ctx)?;
        if let Some(r) = w.sender_reason(d).or(w.receiver_reason(d)) {
            return Err(Fail::new("one_way_disconnected", format!("a connection with channels in one direction only was disconnected ({r:?}) on a loss-free network with a polite, promptly draining application (tick {tick})")));
        }
    }
    let got = w.dirs[d.idx()].chans[&0].msgs.iter().filter(|m| m.obtained == 1).count();
    if accepted < 30 || got != accepted {
        return Err(Fail::new(
            "one_way_stalled",
            format!("one-way {kind:?} traffic on a loss-free network: {accepted} messages of {len} bytes were accepted in 40 ticks (budget {budget}), {got} obtained exactly once - acknowledgements do not seem to come back"),
        ));
    }
    let (Some(snd), Some(rcv)) = (w.sender(d), w.receiver(d)) else { return Err(Fail::new("directed_setup", "connection missing")) };
    let avail = snd.channel_available_memory(0);
    let recv_used = rcv.verif_receive_memory(0).map(|m| m.0).unwrap_or(0);
    if avail != budget || recv_used != 0 {
        return Err(Fail::new("one_way_accounting", format!("after everything was obtained and 20 idle ticks the send channel offers {avail} of {budget} bytes and the receive channel accounts {recv_used}")));
    }
    ctx.label("one_way_configuration");
    ctx.nontrivial = true;
    Ok(())
}

impl Property for C09 {
    fn id(&self) -> &'static str {
        "C09"
    }
    fn level(&self) -> &'static str {
        "fault_enumeration"
    }
    fn rule(&self) -> String {
        "A case = renet pair, all channel kinds, small budgets (3 kB - 200 kB) so limits are near, size mixes up to 5 slices, drain timing from 'after every delivery' (60% of cases) to 'rarely', per-packet faults biased to duplicates, histories up to 400 (quick) / 2500 (thorough) operations, then heal + quiescence. Oracles after every call: 0 <= used <= max on every send and receive channel (hooks; an underflow is an overflow panic); send-side used == sum of unacknowledged lengths; unreliable send channels offer their whole budget right after a flush; reliable receive accounting <= messages handed over and not yet obtained (sliced ones rounded up to whole slices) - a leak is visible at once; unreliable receive accounting right after an update and a drain <= reserved sizes of fragments that progressed within the last 3 s; quiescence: after heal, full drain and > 3 s every send channel offers exactly max and every receive channel accounts 0; no Send/ReceiveChannelError{MaxMemory} with a polite, promptly draining application, modulo the two listed open findings whose structural signature is computed (A: whole-slice reservation, B: ordered head-of-line buffering). Enumerated besides: twelve one-way configurations (the channel list of one direction is empty: the receiving side has only acknowledgements to send; 40 ticks of traffic, everything obtained once, nobody disconnected, the whole budget back), the two witnesses of the open findings and one loss-free exchange of a single message of 65 537 slices (thorough: also 65 536 and 70 001) under a 90 MB budget, after which both channels must account nothing. Non-trivial: a duplicate slice arrived after its message was obtained, or an unreliable fragment expired, and the quiescence check was reached. Distinct = hash of the decoded operation trace.".into()
    }
    fn assumptions(&self) -> Vec<String> {
        vec![
            "polite application: submits only what can_send_message allows".into(),
            "'drains promptly' = receives everything available after every delivery batch".into(),
            "the receive-side leak bound assumes a reassembly buffer reserves at most num_slices*1200 bytes".into(),
        ]
    }
    fn pbt(&self, tier: Tier) -> PbtCfg {
        PbtCfg { cases: tier.pick(100_000, 600_000), max_len: tier.pick(2000, 12000), shrink_ms: 120_000 }
    }
    fn required_labels(&self) -> Vec<&'static str> {
        vec!["stale_dup_slice", "quiescence_checked", "prompt_drain", "unrel_fragment_expired", "unrel_bound_checked"]
    }
    fn enums(&self, tier: Tier) -> Vec<(&'static str, u64)> {
        vec![("directed", 2), ("huge_message", tier.pick(1, 3)), ("one_way", 12)]
    }
    fn run_enum(&self, name: &str, index: u64, ctx: &mut Ctx) -> Outcome {
        if name == "huge_message" {
            return huge_message(index, ctx);
        }
        if name == "one_way" {
            return one_way(index, ctx);
        }
        directed(index, ctx)
    }
    fn run_choices(&self, ctx: &mut Ctx) -> Outcome {
        let s = spec(ctx.tier);
        let mut last_now = 0u64;
        let mut step = |w: &mut World, ctx: &mut Ctx| -> Outcome {
            let advanced = w.now_ms != last_now;
            last_now = w.now_ms;
            // memory disconnects
            mem_disconnects(w, ctx)?;
            // labels
            for ds in w.dirs.iter() {
                for cm in ds.chans.values() {
                    if cm.cfg.kind.reliable() {
                        for m in cm.msgs.iter() {
                            if m.parts > 1 && m.obtained > 0 {
                                let handed_total: u32 = m.carriers.iter().flatten().map(|&p| w.packets[p].handed).sum();
                                if handed_total as usize > m.parts {
                                    ctx.label("stale_dup_slice");
                                }
                            }
                        }
                    }
                }
            }
            // unreliable fragments: right after an update, with the queue drained
            if advanced && w.prompt_drain {
                for d in w.all_dirs() {
                    let unrel: Vec<u8> = w.dirs[d.idx()].chans.values().filter(|c| c.cfg.kind == Kind::Unreliable).map(|c| c.cfg.id).collect();
                    for ch in unrel {
                        w.recv(d, ch, usize::MAX)?;
                        let Some(r) = w.receiver(d) else { continue };
                        if r.is_disconnected() {
                            continue;
                        }
                        let Some((used, _)) = r.verif_receive_memory(ch) else { continue };
                        let cm = &w.dirs[d.idx()].chans[&ch];
                        let now = w.now_ms;
                        let mut bound = 0usize;
                        let mut expired = false;
                        for (_sid, (n, last)) in cm.partial_seen.iter() {
                            if now - *last < 3000 {
                                bound += n * SLICE;
                            } else {
                                expired = true;
                            }
                        }
                        if expired {
                            ctx.label("unrel_fragment_expired");
                        }
                        ctx.label("unrel_bound_checked");
                        if used > bound {
                            if std::env::var("RV_DEBUG").is_ok() {
                                eprintln!("partial_seen={:?} now={} used={} partials={:?}", cm.partial_seen, now, used, r.verif_receive_partial_messages(ch));
                            }
                            return Err(Fail::new(
                                "unreliable_fragments_counted",
                                format!(
                                    "client {} {} unreliable receive channel {ch}: {used} bytes accounted right after an update at {now} ms with an empty queue, but fragments that progressed within the last 3 s can reserve at most {bound}",
                                    d.client,
                                    if d.to_client { "s2c" } else { "c2s" }
                                ),
                            ));
                        }
                    }
                }
            }
            Ok(())
        };
        run_sim(ctx, &s, &mut step, &mut |_w, ctx, _r| {
            if (ctx.has("stale_dup_slice") || ctx.has("unrel_fragment_expired")) && ctx.has("quiescence_checked") {
                ctx.nontrivial = true;
            }
            Ok(())
        })
    }
}
