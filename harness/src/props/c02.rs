//! C02 ReliableUnordered: each message at most once, intact, no head-of-line wait; bounded liveness.

use super::simcase::*;
use crate::engine::*;
use crate::sim::driver::*;
use crate::sim::world::*;

pub struct C02;

fn spec(tier: Tier) -> SimSpec {
    let mut ops = default_ops();
    ops.max_ops = tier.pick(300, 900);
    // biased to single-packet deliveries with receives in between, and to duplicates
    ops.ops = [70, 70, 40, 10, 20, 16, 30];
    ops.data_faults = [120, 40, 66, 30];
    SimSpec {
        cfg: CfgSpec {
            kinds: [1, 2, 6],
            chans: (1, 3),
            mems: MEMS_LARGE,
            budgets: BUDGETS_WIDE,
            resends: RESENDS,
            clients: (1, 1),
            must_have: Some(Kind::Unordered),
        },
        ops,
        oracles: Oracles { content: true, content_kinds: vec![Kind::Unordered], prompt: true, impolite_once: true, ..Default::default() },
        liveness: true,
        quiescence: false,
        quiescence_memory: false,
    }
}

impl Property for C02 {
    fn id(&self) -> &'static str {
        "C02"
    }
    fn level(&self) -> &'static str {
        "fault_enumeration"
    }
    fn rule(&self) -> String {
        "A case = generated configuration with at least one ReliableUnordered channel per direction + free interleaving of send/receive/update/flush/deliver (including single-packet deliveries followed by receives) with per-packet faults biased to duplication, then a fault-free heal phase. Oracles: the multiset obtained is always a sub-multiset of the one submitted (byte-identical, nothing twice); after every delivery + full drain every message all of whose packets were handed over has been obtained (no head-of-line wait); bounded liveness after healing. Non-trivial: a duplicate of an already obtained message was handed over while a lower id was still outstanding, and a sliced message was sent. Distinct = hash of the decoded operation trace.".into()
    }
    fn assumptions(&self) -> Vec<String> {
        vec![
            "liveness only with a tick budget of at least one slice and both sides connected".into(),
            "the application only submits what can_send_message allows, except that in about half of the cases it insists once on a reliable message that was refused (documented: the connection is disconnected; a connection that stays up has accepted the message)".into(),
        ]
    }
    fn pbt(&self, tier: Tier) -> PbtCfg {
        PbtCfg { cases: tier.pick(120_000, 2_000_000), max_len: tier.pick(1500, 5000), shrink_ms: 120_000 }
    }
    fn required_labels(&self) -> Vec<&'static str> {
        vec!["data_dup", "data_lost", "sliced_sent", "dup_after_consume", "deliver_one", "healed_complete"]
    }
    fn run_choices(&self, ctx: &mut Ctx) -> Outcome {
        let s = spec(ctx.tier);
        let mut step = |w: &mut World, ctx: &mut Ctx| -> Outcome {
            // label: a packet carrying an already obtained message was handed over (again) while a lower id is missing
            for ds in w.dirs.iter() {
                for cm in ds.chans.values() {
                    if cm.cfg.kind != Kind::Unordered {
                        continue;
                    }
                    let lowest_missing = cm.msgs.iter().position(|m| m.obtained == 0);
                    if let Some(lm) = lowest_missing {
                        for m in cm.msgs.iter().skip(lm + 1) {
                            if m.obtained > 0 {
                                let handed_total: u32 = m.carriers.iter().flatten().map(|&p| w.packets[p].handed).sum();
                                if handed_total as usize > m.parts {
                                    ctx.label("dup_after_consume");
                                    return Ok(());
                                }
                            }
                        }
                    }
                }
            }
            Ok(())
        };
        run_sim(ctx, &s, &mut step, &mut |_w, ctx, _r| {
            if ctx.has("dup_after_consume") && ctx.has("sliced_sent") {
                ctx.nontrivial = true;
            }
            Ok(())
        })
    }
}
