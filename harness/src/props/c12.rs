//! C12 Disconnection is final and reported exactly once, with the first reason.

use crate::engine::*;
use bytes::Bytes;
use renet::{ChannelConfig, ChannelError, ConnectionConfig, DisconnectReason, RenetClient, RenetServer, SendType, ServerEvent};
use std::collections::VecDeque;
use std::time::Duration;

pub struct C12;

const IDS: usize = 4;
const REL_MEM: usize = 4000;

fn config() -> ConnectionConfig {
    let ch = vec![
        ChannelConfig { channel_id: 0, max_memory_usage_bytes: 6000, send_type: SendType::Unreliable },
        ChannelConfig { channel_id: 1, max_memory_usage_bytes: REL_MEM, send_type: SendType::ReliableUnordered { resend_time: Duration::from_millis(100) } },
        ChannelConfig { channel_id: 2, max_memory_usage_bytes: REL_MEM, send_type: SendType::ReliableOrdered { resend_time: Duration::from_millis(100) } },
    ];
    ConnectionConfig { available_bytes_per_tick: 60_000, server_channels_config: ch.clone(), client_channels_config: ch }
}

#[derive(Clone, Copy, Debug, PartialEq, Eq)]
enum St {
    Connecting,
    Connected,
    Disc(DisconnectReason),
}

struct Peer {
    client: RenetClient,
    st: St,
    local: bool,
    /// packets captured from the server for this peer / from this peer for the server
    inbox: VecDeque<Vec<u8>>,
    outbox: VecDeque<Vec<u8>>,
}

#[derive(Debug, Hash, Clone)]
enum Op {
    Add(usize),
    Remove(usize),
    Disconnect(usize),
    DisconnectAll,
    NewLocal(usize),
    DisconnectLocal(usize),
    ProcessLocal(usize),
    ServerSend(usize, u8, usize),
    Broadcast(u8, usize),
    ClientSend(usize, u8, usize),
    ServerRecv(usize, u8),
    ClientRecv(usize, u8),
    ServerFlush(usize),
    ClientFlush(usize),
    ToServer(usize, bool),
    ToClient(usize, bool),
    Update(u64),
    ClientSet(usize, u8),
    Exchange(usize),
    Churn(usize, usize),
}

/// Which connections an operation may legitimately disconnect, and with which class of reason.
#[derive(Clone, Copy, PartialEq, Eq, Debug)]
enum Cause {
    None,
    Exact(DisconnectReason),
    /// caused by processing a packet or by a send over budget: the reason observed right after is the first reason
    PacketOrBudget,
}

fn reason_class_ok(c: Cause, r: DisconnectReason) -> bool {
    match c {
        Cause::None => false,
        Cause::Exact(e) => e == r,
        Cause::PacketOrBudget => matches!(
            r,
            DisconnectReason::PacketDeserialization(_)
                | DisconnectReason::ReceivedInvalidChannelId(_)
                | DisconnectReason::ReceiveChannelError { .. }
                | DisconnectReason::SendChannelError { error: ChannelError::ReliableChannelMaxMemoryReached, .. }
        ),
    }
}

struct Sys {
    server: RenetServer,
    /// model of the server-side connection per id: None = not present
    sconn: [Option<St>; IDS],
    peers: Vec<Option<Peer>>,
    expected_events: VecDeque<ServerEvent>,
    /// the application polls events now (a lazy application lets them pile up over many operations)
    poll_events: bool,
}

impl Sys {
    fn check_conn(&self, who: &str, c: &RenetClient, st: St) -> Outcome {
        match st {
            St::Disc(r) => {
                if !c.is_disconnected() {
                    return Err(Fail::new("revived", format!("{who}: was disconnected ({r:?}) and is not any more")));
                }
                if c.disconnect_reason() != Some(r) {
                    return Err(Fail::new("reason_changed", format!("{who}: first disconnect reason {r:?}, now reports {:?}", c.disconnect_reason())));
                }
                if c.is_connected() || c.is_connecting() {
                    return Err(Fail::new("revived", format!("{who}: disconnected but reports connected/connecting")));
                }
            }
            St::Connected => {
                if !c.is_connected() || c.is_disconnected() || c.disconnect_reason().is_some() {
                    return Err(Fail::new("status", format!("{who}: expected Connected, reports connected={} reason={:?}", c.is_connected(), c.disconnect_reason())));
                }
            }
            St::Connecting => {
                if !c.is_connecting() || c.is_disconnected() {
                    return Err(Fail::new("status", format!("{who}: expected Connecting, reports connecting={} reason={:?}", c.is_connecting(), c.disconnect_reason())));
                }
            }
        }
        Ok(())
    }

    /// After an operation: fold newly observed disconnects into the model (only where the operation allows it).
    fn settle(&mut self, op: &Op, server_cause: [Cause; IDS], peer_cause: [Cause; IDS]) -> Outcome {
        for id in 0..IDS {
            let cid = id as u64;
            match (self.sconn[id], self.server.verif_connection(cid)) {
                (None, None) => {}
                (None, Some(_)) => return Err(Fail::new("phantom_connection", format!("{op:?}: server holds a connection for id {id} that was never added"))),
                (Some(_), None) => return Err(Fail::new("lost_connection", format!("{op:?}: server lost the connection of id {id} without a removal"))),
                (Some(st), Some(c)) => {
                    let mut st = st;
                    if !matches!(st, St::Disc(_)) {
                        if let Some(r) = c.disconnect_reason() {
                            if !reason_class_ok(server_cause[id], r) {
                                return Err(Fail::new(
                                    "unexpected_disconnect",
                                    format!("{op:?}: server-side connection {id} became disconnected with {r:?}, which this operation cannot cause (allowed: {:?})", server_cause[id]),
                                ));
                            }
                            st = St::Disc(r);
                            self.sconn[id] = Some(st);
                        } else if let Cause::Exact(r) = server_cause[id] {
                            // an explicit disconnect call addressed at a healthy connection disconnects it
                            return Err(Fail::new("disconnect_call_ignored", format!("{op:?}: server-side connection {id} is still healthy after a call that disconnects it ({r:?})")));
                        }
                    }
                    self.check_conn(&format!("{op:?}: server-side connection {id}"), c, st)?;
                }
            }
            if let Some(p) = self.peers[id].as_mut() {
                if !matches!(p.st, St::Disc(_)) {
                    if let Some(r) = p.client.disconnect_reason() {
                        if !reason_class_ok(peer_cause[id], r) {
                            return Err(Fail::new(
                                "unexpected_disconnect",
                                format!("{op:?}: client object {id} became disconnected with {r:?}, which this operation cannot cause (allowed: {:?})", peer_cause[id]),
                            ));
                        }
                        p.st = St::Disc(r);
                    } else if let Cause::Exact(r) = peer_cause[id] {
                        return Err(Fail::new("disconnect_call_ignored", format!("{op:?}: client object {id} is still healthy after a call that disconnects it ({r:?})")));
                    }
                }
            }
            if let Some(p) = self.peers[id].as_ref() {
                self.check_conn(&format!("{op:?}: client object {id}"), &p.client, p.st)?;
            }
        }
        // server-wide views
        let mut connected: Vec<u64> = self.server.clients_id();
        connected.sort_unstable();
        let exp_connected: Vec<u64> = (0..IDS).filter(|&i| self.sconn[i] == Some(St::Connected)).map(|i| i as u64).collect();
        if connected != exp_connected {
            return Err(Fail::new("clients_id", format!("{op:?}: clients_id() = {connected:?}, expected {exp_connected:?}")));
        }
        let mut disc: Vec<u64> = self.server.disconnections_id();
        disc.sort_unstable();
        let exp_disc: Vec<u64> = (0..IDS).filter(|&i| matches!(self.sconn[i], Some(St::Disc(_)))).map(|i| i as u64).collect();
        if disc != exp_disc {
            return Err(Fail::new("disconnections_id", format!("{op:?}: disconnections_id() = {disc:?}, expected {exp_disc:?}")));
        }
        // the iterator forms list the same ids
        let mut it: Vec<u64> = self.server.clients_id_iter().collect();
        it.sort_unstable();
        let mut dit: Vec<u64> = self.server.disconnections_id_iter().collect();
        dit.sort_unstable();
        if it != exp_connected || dit != exp_disc {
            return Err(Fail::new("clients_id", format!("{op:?}: clients_id_iter() = {it:?} / disconnections_id_iter() = {dit:?}, expected {exp_connected:?} / {exp_disc:?}")));
        }
        if self.server.connected_clients() != exp_connected.len() || self.server.has_connections() != self.sconn.iter().any(|s| s.is_some()) {
            return Err(Fail::new("server_counts", format!("{op:?}: connected_clients/has_connections disagree with the history")));
        }
        for id in 0..IDS {
            let exp = match self.sconn[id] {
                Some(St::Disc(r)) => Some(r),
                _ => None,
            };
            if self.server.is_connected(id as u64) != (self.sconn[id] == Some(St::Connected)) {
                return Err(Fail::new("revived", format!("{op:?}: server.is_connected({id}) = {}, the history has that connection as {:?}", self.server.is_connected(id as u64), self.sconn[id])));
            }
            if self.server.disconnect_reason(id as u64) != exp {
                return Err(Fail::new("server_reason", format!("{op:?}: server.disconnect_reason({id}) = {:?}, expected {exp:?}", self.server.disconnect_reason(id as u64))));
            }
        }
        // events: exactly the expected ones, in the expected order per client id (the statement orders the events of one id; how the
        // events of different ids interleave is not promised)
        let ev_id = |e: &ServerEvent| match e {
            ServerEvent::ClientConnected { client_id } | ServerEvent::ClientDisconnected { client_id, .. } => *client_id,
        };
        while self.poll_events {
            match self.server.get_event() {
                None => {
                    if let Some(e) = self.expected_events.front() {
                        return Err(Fail::new("events", format!("{op:?}: no more server events, the history calls for {e:?}")));
                    }
                    break;
                }
                Some(g) => {
                    let id = ev_id(&g);
                    let pos = self.expected_events.iter().position(|e| ev_id(e) == id);
                    let e = pos.and_then(|p| self.expected_events.remove(p));
                    if e.as_ref() != Some(&g) {
                        return Err(Fail::new("events", format!("{op:?}: server event {g:?}, the history calls for {e:?} as the next event of that id")).sig(match (&g, &e) {
                            (ServerEvent::ClientDisconnected { reason: a, .. }, Some(ServerEvent::ClientDisconnected { reason: b, .. })) if a != b => "events:wrong_reason".to_string(),
                            _ => "events".to_string(),
                        }));
                    }
                }
            }
        }
        Ok(())
    }
}

fn payload(src: &mut Src, len: usize) -> Bytes {
    let mut v = vec![0u8; len];
    fill_stream(src.u16() as u64, &mut v);
    Bytes::from(v)
}

impl Property for C12 {
    fn id(&self) -> &'static str {
        "C12"
    }
    fn level(&self) -> &'static str {
        "exploration"
    }
    fn rule(&self) -> String {
        "A case = a history of up to 120 (quick) / 400 (thorough) public API calls on one RenetServer and up to 4 client objects (remote-style and local): add/remove connection, disconnect, disconnect_all, new_local_client, disconnect_local_client, process_local_client, set_connected/set_connecting/disconnect/disconnect_due_to_transport, send (including sends over the channel budget), broadcast, receive, genuine and garbage packets in both directions, update, get_packets_to_send, and runs of 20-300 short-lived connections of one id; in some cases the application polls get_event only rarely, so hundreds of events are pending. A model records for every connection object the reason observed right after the operation that first disconnected it, and which operations may disconnect which object. Oracles after every call: a disconnected object stays disconnected with the same reason, emits no packets, yields no messages (even with messages buffered), ignores packets and status setters; no operation disconnects an object it does not address; clients_id / disconnections_id / connected_clients / disconnect_reason(id) agree with the model; the server event stream equals, per client id event by event (and as a whole as a multiset), the one the history calls for (connect on actual insertion, disconnect on actual removal with the first reason, Transport if healthy; disconnect_local_client on a healthy connection = DisconnectedByClient, as tests/lib.rs asserts). Non-trivial: >= 2 distinct causes of disconnection and calls of >= 4 families after a disconnect. Distinct = hash of the decoded call sequence.".into()
    }
    fn assumptions(&self) -> Vec<String> {
        vec![
            "channel ids passed to the API exist (documented panic otherwise)".into(),
            "disconnect_local_client is given the local client created for that id".into(),
        ]
    }
    fn pbt(&self, tier: Tier) -> PbtCfg {
        PbtCfg { cases: tier.pick(400_000, 8_000_000), max_len: tier.pick(500, 1600), shrink_ms: 120_000 }
    }
    fn required_labels(&self) -> Vec<&'static str> {
        vec!["cause:server", "cause:client", "cause:transport", "cause:packet", "cause:budget", "after:packet", "after:setter", "after:recv_buffered", "after:flush", "local_after_server_disconnect", "remove_disconnected", "remove_healthy", "lazy_event_polling", "long_churn"]
    }
    fn run_choices(&self, ctx: &mut Ctx) -> Outcome {
        let max_ops = ctx.tier.pick(120, 400);
        let mut sys = Sys { server: RenetServer::new(config()), sconn: [None; IDS], peers: (0..IDS).map(|_| None).collect(), expected_events: VecDeque::new(), poll_events: true };
        // a lazy application polls the event queue rarely (and once at the end): events pile up in between
        let lazy = ctx.src.chance(50);
        if lazy {
            ctx.label("lazy_event_polling");
        }
        let mut ops = 0;
        let mut causes: std::collections::BTreeSet<&'static str> = Default::default();
        let mut after: std::collections::BTreeSet<&'static str> = Default::default();
        while !ctx.src.exhausted() && ops < max_ops {
            ops += 1;
            let id = ctx.src.below(IDS);
            let cid = id as u64;
            let mut sc = [Cause::None; IDS];
            let mut pc = [Cause::None; IDS];
            sys.poll_events = !lazy || ctx.src.chance(6);
            let kind = ctx.src.weighted(&[10, 6, 6, 2, 8, 5, 8, 10, 3, 10, 6, 6, 8, 8, 10, 10, 6, 8, 10, 0, if lazy { 6 } else { 1 }]);
            let op = match kind {
                0 => {
                    if sys.sconn[id].is_none() {
                        sys.sconn[id] = Some(St::Connected);
                        sys.expected_events.push_back(ServerEvent::ClientConnected { client_id: cid });
                        // a remote-style client object for this id
                        let mut c = RenetClient::new(config());
                        if ctx.src.chance(200) {
                            c.set_connected();
                        }
                        let st = if c.is_connected() { St::Connected } else { St::Connecting };
                        sys.peers[id] = Some(Peer { client: c, st, local: false, inbox: VecDeque::new(), outbox: VecDeque::new() });
                    }
                    sys.server.add_connection(cid);
                    Op::Add(id)
                }
                1 => {
                    if let Some(st) = sys.sconn[id] {
                        let reason = match st {
                            St::Disc(r) => {
                                ctx.label("remove_disconnected");
                                r
                            }
                            _ => {
                                ctx.label("remove_healthy");
                                DisconnectReason::Transport
                            }
                        };
                        sys.expected_events.push_back(ServerEvent::ClientDisconnected { client_id: cid, reason });
                        sys.sconn[id] = None;
                    }
                    sys.server.remove_connection(cid);
                    Op::Remove(id)
                }
                2 => {
                    sc[id] = Cause::Exact(DisconnectReason::DisconnectedByServer);
                    if matches!(sys.sconn[id], Some(St::Connected)) {
                        causes.insert("cause:server");
                    }
                    sys.server.disconnect(cid);
                    Op::Disconnect(id)
                }
                3 => {
                    sc = [Cause::Exact(DisconnectReason::DisconnectedByServer); IDS];
                    sys.server.disconnect_all();
                    Op::DisconnectAll
                }
                4 => {
                    if sys.sconn[id].is_none() {
                        sys.sconn[id] = Some(St::Connected);
                        sys.expected_events.push_back(ServerEvent::ClientConnected { client_id: cid });
                    }
                    let c = sys.server.new_local_client(cid);
                    sys.peers[id] = Some(Peer { client: c, st: St::Connected, local: true, inbox: VecDeque::new(), outbox: VecDeque::new() });
                    Op::NewLocal(id)
                }
                5 => {
                    if let Some(p) = sys.peers[id].as_mut() {
                        if p.local {
                            if !matches!(p.st, St::Disc(_)) {
                                // documented: a disconnection by the client followed by the removal
                                pc[id] = Cause::Exact(DisconnectReason::DisconnectedByClient);
                                if let Some(st) = sys.sconn[id] {
                                    let reason = match st {
                                        St::Disc(r) => {
                                            ctx.label("local_after_server_disconnect");
                                            r
                                        }
                                        _ => DisconnectReason::DisconnectedByClient,
                                    };
                                    sys.expected_events.push_back(ServerEvent::ClientDisconnected { client_id: cid, reason });
                                    sys.sconn[id] = None;
                                }
                            }
                            sys.server.disconnect_local_client(cid, &mut p.client);
                        }
                    }
                    Op::DisconnectLocal(id)
                }
                6 => {
                    if let Some(p) = sys.peers[id].as_mut() {
                        if p.local {
                            sc[id] = Cause::PacketOrBudget;
                            pc[id] = Cause::PacketOrBudget;
                            let _ = sys.server.process_local_client(cid, &mut p.client);
                        }
                    }
                    Op::ProcessLocal(id)
                }
                7 => {
                    let ch = ctx.src.below(3) as u8;
                    let len = ctx.src.pick(&[10usize, 0, 100, 1300, 2500, REL_MEM - 10, REL_MEM + 1, 7000]);
                    if ch > 0 && matches!(sys.sconn[id], Some(St::Connected)) && !sys.server.can_send_message(cid, ch, len) {
                        causes.insert("cause:budget");
                    }
                    sc[id] = Cause::PacketOrBudget;
                    sys.server.send_message(cid, ch, payload(&mut ctx.src, len));
                    Op::ServerSend(id, ch, len)
                }
                8 => {
                    let ch = ctx.src.below(3) as u8;
                    let len = ctx.src.pick(&[10usize, 0, 100, 1300, 2500]);
                    sc = [Cause::PacketOrBudget; IDS];
                    sys.server.broadcast_message(ch, payload(&mut ctx.src, len));
                    Op::Broadcast(ch, len)
                }
                9 => {
                    let ch = ctx.src.below(3) as u8;
                    let len = ctx.src.pick(&[10usize, 0, 100, 1300, 2500, REL_MEM + 1]);
                    if let Some(p) = sys.peers[id].as_mut() {
                        pc[id] = Cause::PacketOrBudget;
                        if ch > 0 && p.st != St::Disc(DisconnectReason::Transport) && !matches!(p.st, St::Disc(_)) && !p.client.can_send_message(ch, len) {
                            causes.insert("cause:budget");
                        }
                        p.client.send_message(ch, payload(&mut ctx.src, len));
                    }
                    Op::ClientSend(id, ch, len)
                }
                10 => {
                    let ch = ctx.src.below(3) as u8;
                    let disconnected = matches!(sys.sconn[id], Some(St::Disc(_)));
                    let buffered = sys.server.verif_connection(cid).and_then(|c| c.verif_receive_memory(ch)).map(|m| m.0 > 0).unwrap_or(false);
                    let m = sys.server.receive_message(cid, ch);
                    if disconnected {
                        if m.is_some() {
                            return Err(Fail::new("message_after_disconnect", format!("server.receive_message({id}, {ch}) yielded a message from a disconnected connection")));
                        }
                        if buffered {
                            after.insert("after:recv_buffered");
                        }
                    }
                    if sys.sconn[id].is_none() && m.is_some() {
                        return Err(Fail::new("message_without_connection", format!("server.receive_message({id}, {ch}) yielded a message without a connection")));
                    }
                    Op::ServerRecv(id, ch)
                }
                11 => {
                    let ch = ctx.src.below(3) as u8;
                    if let Some(p) = sys.peers[id].as_mut() {
                        let disconnected = matches!(p.st, St::Disc(_));
                        let buffered = p.client.verif_receive_memory(ch).map(|m| m.0 > 0).unwrap_or(false);
                        let m = p.client.receive_message(ch);
                        if disconnected {
                            if m.is_some() {
                                return Err(Fail::new("message_after_disconnect", format!("client {id} receive_message({ch}) yielded a message although disconnected")));
                            }
                            if buffered {
                                after.insert("after:recv_buffered");
                            }
                        }
                    }
                    Op::ClientRecv(id, ch)
                }
                12 => {
                    let disconnected = matches!(sys.sconn[id], Some(St::Disc(_)));
                    match sys.server.get_packets_to_send(cid) {
                        Ok(pk) => {
                            if sys.sconn[id].is_none() {
                                return Err(Fail::new("packets_without_connection", format!("get_packets_to_send({id}) succeeded without a connection")));
                            }
                            if disconnected {
                                after.insert("after:flush");
                                if !pk.is_empty() {
                                    return Err(Fail::new("packets_after_disconnect", format!("server-side connection {id} is disconnected but emitted {} packets", pk.len())));
                                }
                            }
                            if let Some(p) = sys.peers[id].as_mut() {
                                p.inbox.extend(pk);
                                while p.inbox.len() > 40 {
                                    p.inbox.pop_front();
                                }
                            }
                        }
                        Err(_) => {
                            if sys.sconn[id].is_some() {
                                return Err(Fail::new("client_not_found", format!("get_packets_to_send({id}) failed although the connection exists")));
                            }
                        }
                    }
                    sc[id] = Cause::PacketOrBudget;
                    Op::ServerFlush(id)
                }
                13 => {
                    if let Some(p) = sys.peers[id].as_mut() {
                        let disconnected = matches!(p.st, St::Disc(_));
                        let pk = p.client.get_packets_to_send();
                        if disconnected {
                            after.insert("after:flush");
                            if !pk.is_empty() {
                                return Err(Fail::new("packets_after_disconnect", format!("client object {id} is disconnected but emitted {} packets", pk.len())));
                            }
                        }
                        p.outbox.extend(pk);
                        while p.outbox.len() > 40 {
                            p.outbox.pop_front();
                        }
                        pc[id] = Cause::PacketOrBudget;
                    }
                    Op::ClientFlush(id)
                }
                14 => {
                    // a packet for the server under this id: genuine (from the peer's outbox) or garbage
                    let garbage = ctx.src.chance(60);
                    let bytes = if garbage {
                        let n = 1 + ctx.src.below(30);
                        let mut b = ctx.src.bytes(n);
                        b[0] = 5 + ctx.src.below(250) as u8;
                        Some(b)
                    } else {
                        sys.peers[id].as_mut().and_then(|p| p.outbox.pop_front())
                    };
                    if let Some(b) = bytes {
                        sc[id] = Cause::PacketOrBudget;
                        if matches!(sys.sconn[id], Some(St::Disc(_))) {
                            after.insert("after:packet");
                        }
                        if garbage && matches!(sys.sconn[id], Some(St::Connected)) {
                            causes.insert("cause:packet");
                        }
                        let r = sys.server.process_packet_from(&b, cid);
                        if r.is_ok() != sys.sconn[id].is_some() {
                            return Err(Fail::new("client_not_found", format!("process_packet_from({id}) result disagrees with the connection table")));
                        }
                    }
                    Op::ToServer(id, garbage)
                }
                15 => {
                    let garbage = ctx.src.chance(60);
                    if let Some(p) = sys.peers[id].as_mut() {
                        let bytes = if garbage {
                            let n = 1 + ctx.src.below(30);
                            let mut b = ctx.src.bytes(n);
                            b[0] = 5 + ctx.src.below(250) as u8;
                            Some(b)
                        } else {
                            p.inbox.pop_front()
                        };
                        if let Some(b) = bytes {
                            pc[id] = Cause::PacketOrBudget;
                            if matches!(p.st, St::Disc(_)) {
                                after.insert("after:packet");
                            } else if garbage {
                                causes.insert("cause:packet");
                            }
                            p.client.process_packet(&b);
                        }
                    }
                    Op::ToClient(id, garbage)
                }
                16 => {
                    let dt = ctx.src.pick(&[16u64, 100, 1000, 3500]);
                    sys.server.update(Duration::from_millis(dt));
                    for p in sys.peers.iter_mut().flatten() {
                        p.client.update(Duration::from_millis(dt));
                    }
                    Op::Update(dt)
                }
                18 => {
                    // everything both sides currently want to send is delivered (messages pile up in the receive buffers)
                    sc[id] = Cause::PacketOrBudget;
                    pc[id] = Cause::PacketOrBudget;
                    if let Some(p) = sys.peers[id].as_mut() {
                        if let Ok(pk) = sys.server.get_packets_to_send(cid) {
                            for b in pk {
                                p.client.process_packet(&b);
                            }
                        }
                        for b in p.client.get_packets_to_send() {
                            let _ = sys.server.process_packet_from(&b, cid);
                        }
                    }
                    Op::Exchange(id)
                }
                20 => {
                    // many short-lived connections of one id in a row (players joining and leaving), the server ticking in between
                    let n = ctx.src.pick(&[20usize, 70, 140, 300]);
                    if sys.sconn[id].is_none() {
                        for k in 0..n {
                            sys.server.add_connection(cid);
                            sys.expected_events.push_back(ServerEvent::ClientConnected { client_id: cid });
                            if k % 7 == 3 {
                                sys.server.update(Duration::from_millis(16));
                            }
                            sys.server.remove_connection(cid);
                            sys.expected_events.push_back(ServerEvent::ClientDisconnected { client_id: cid, reason: DisconnectReason::Transport });
                        }
                        sys.peers[id] = None;
                        if n >= 140 {
                            ctx.label("long_churn");
                        }
                    }
                    Op::Churn(id, n)
                }
                _ => {
                    let which = ctx.src.below(4) as u8;
                    if let Some(p) = sys.peers[id].as_mut() {
                        let was_disc = matches!(p.st, St::Disc(_));
                        if was_disc {
                            after.insert("after:setter");
                        }
                        match which {
                            0 => {
                                p.client.set_connected();
                                if !was_disc {
                                    p.st = St::Connected;
                                }
                            }
                            1 => {
                                p.client.set_connecting();
                                if !was_disc {
                                    p.st = St::Connecting;
                                }
                            }
                            2 => {
                                pc[id] = Cause::Exact(DisconnectReason::DisconnectedByClient);
                                if !was_disc {
                                    causes.insert("cause:client");
                                }
                                p.client.disconnect();
                            }
                            _ => {
                                pc[id] = Cause::Exact(DisconnectReason::Transport);
                                if !was_disc {
                                    causes.insert("cause:transport");
                                }
                                p.client.disconnect_due_to_transport();
                            }
                        }
                    }
                    Op::ClientSet(id, which)
                }
            };
            ctx.op(&op);
            sys.settle(&op, sc, pc)?;
        }
        if !sys.poll_events {
            // the lazy application finally polls: the whole backlog must be exactly what the history calls for
            sys.poll_events = true;
            sys.settle(&Op::Update(0), [Cause::None; IDS], [Cause::None; IDS])?;
        }
        for c in causes.iter() {
            ctx.label(c);
        }
        for a in after.iter() {
            ctx.label(a);
        }
        if causes.len() >= 2 && after.len() >= 3 {
            ctx.nontrivial = true;
        }
        Ok(())
    }
}
