//! C11 Isolation between clients and channels; broadcast reaches exactly its targets.

use super::c06::inject;
use super::simcase::*;
use crate::engine::*;
use crate::sim::driver::*;
use crate::sim::world::*;

pub struct C11;

#[derive(Debug, Hash)]
enum XOp {
    Broadcast { ch: u8, len: usize, recipients: Vec<usize>, except: Option<usize> },
    BroadcastSkipped,
    Join(usize),
    Disconnect { client: usize, how: u8 },
    Stall { client: usize, to_client: bool, ch: u8, mid: u64 },
}

fn spec(tier: Tier) -> (CfgSpec, OpSpec) {
    let mut ops = default_ops();
    ops.max_ops = tier.pick(250, 800);
    ops.ops = [90, 60, 20, 6, 16, 16, 8];
    ops.extra = 60;
    ops.max_slices = 5;
    ops.prompt_drain = 60;
    (
        CfgSpec {
            kinds: [3, 4, 3],
            chans: (1, 3),
            mems: MEMS_LARGE,
            budgets: &[60_000, 12_000, 1_000_000],
            resends: RESENDS,
            clients: (2, 5),
            must_have: None,
        },
        ops,
    )
}

fn server_side_connected(w: &World, i: usize) -> bool {
    w.active[i] && w.server.verif_connection(client_id(i)).map(|c| !c.is_disconnected()).unwrap_or(false)
}

impl Property for C11 {
    fn id(&self) -> &'static str {
        "C11"
    }
    fn level(&self) -> &'static str {
        "fault_enumeration"
    }
    fn rule(&self) -> String {
        "A case = renet server with 2-5 client slots (some joining late, some disconnected by server.disconnect / client.disconnect / remove_connection at any time), independent per-packet fault schedules per client, send_message / broadcast_message / broadcast_message_except / client->server sends, hostile packets on client 0 in some cases (C06 generator), and in some cases a targeted fault that drops every packet carrying one chosen 1200-byte reliable message forever (stalls that stream). Every message carries its recipient set; models are per (client, direction, channel). Oracles: a client only obtains messages registered for it on that channel (prefix / at-most-once / delivery credits as in C01-C03), the server obtains under id X only what client X sent; the excepted client never obtains the broadcast; after healing every client connected at broadcast time obtains each reliable broadcast exactly once, and clients/channels other than the misbehaving, disconnected or stalled one meet the liveness bound computed without it; in fault-free cases every unreliable message that left in a flush is obtained exactly once. Non-trivial: >= 2 clients and >= 1 broadcast issued while one client was disconnected, stalled, or hostile. Distinct = hash of the decoded operation trace.".into()
    }
    fn assumptions(&self) -> Vec<String> {
        vec![
            "the application broadcasts on a reliable channel only when every connected recipient can take the message (can_send_message), as a polite sender does".into(),
            "the stalled message fills a packet alone (1200 bytes), so dropping its packets does not drop other messages; the tick budget is >= 10 slices in such cases".into(),
        ]
    }
    fn pbt(&self, tier: Tier) -> PbtCfg {
        PbtCfg { cases: tier.pick(120_000, 2_000_000), max_len: tier.pick(2000, 6000), shrink_ms: 120_000 }
    }
    fn required_labels(&self) -> Vec<&'static str> {
        vec!["broadcast", "broadcast_except", "broadcast_with_dead_client", "late_join", "stalled_stream", "hostile_client", "fault_free_case", "healed_complete", "impolite_broadcast"]
    }
    fn run_choices(&self, ctx: &mut Ctx) -> Outcome {
        let (cfgspec, mut ops) = spec(ctx.tier);
        let cfg = gen_cfg(&mut ctx.src, &cfgspec);
        ctx.op(&cfg);
        let n = cfg.n_clients;
        let joined = 1 + ctx.src.below(n);
        let hostile = ctx.src.chance(70);
        let fault_free = !hostile && ctx.src.chance(50);
        if fault_free {
            ops.data_faults = [1, 0, 0, 0];
            ops.ack_faults = [1, 0, 0, 0];
            // the application drains after every delivery, so the unreliable receive queue never fills up
            ops.prompt_drain = 256;
            ctx.label("fault_free_case");
        }
        let budget = cfg.bytes_per_tick;
        let mut w = World::new_partial(cfg, Oracles { content: true, budget: true, exclude_clients: if hostile { vec![0] } else { vec![] }, ..Default::default() }, joined);
        let mut bserial: u32 = 0;
        let mut extra = |w: &mut World, ctx: &mut Ctx| -> Outcome {
            let which = ctx.src.weighted(&[10, 6, 4, 3, if hostile { 8 } else { 0 }, 3]);
            let xop = match which {
                0 | 1 => {
                    // broadcast (except)
                    let ch = w.cfg.s2c[ctx.src.below(w.cfg.s2c.len())].clone();
                    let len = gen_len(&mut ctx.src, &[40, 60, 30, 30, 20], 4);
                    let except = if which == 1 { Some(ctx.src.below(n)) } else { None };
                    let recipients: Vec<usize> = (0..n).filter(|&i| server_side_connected(w, i) && Some(i) != except).collect();
                    let polite_ok = recipients.iter().all(|&i| w.server.can_send_message(client_id(i), ch.id, len));
                    // mostly a polite application; sometimes it broadcasts although a reliable channel of some recipient is
                    // full: that recipient is then disconnected (documented), everybody who stays connected must get the message
                    let impolite = !polite_ok && ch.kind.reliable() && ctx.src.chance(120);
                    if !polite_ok && !impolite {
                        XOp::BroadcastSkipped
                    } else {
                        let mut mask = 0u32;
                        for &i in recipients.iter() {
                            mask |= 1 << i;
                        }
                        bserial += 1;
                        let content = make_content(0xFF, true, ch.id, 0x8000_0000 | bserial, len, mask);
                        match except {
                            Some(e) => w.server.broadcast_message_except(client_id(e), ch.id, content.clone()),
                            None => w.server.broadcast_message(ch.id, content.clone()),
                        }
                        for &i in recipients.iter() {
                            // a recipient whose channel was full is disconnected by the send; whoever is still connected has it queued
                            if impolite && !server_side_connected(w, i) {
                                ctx.label("broadcast_disconnected_full_client");
                                continue;
                            }
                            w.register(Dir { client: i, to_client: true }, ch.id, content.clone(), ch.kind);
                        }
                        if impolite {
                            ctx.label("impolite_broadcast");
                        }
                        ctx.label(if except.is_some() { "broadcast_except" } else { "broadcast" });
                        if (0..n).any(|i| w.active[i] && (!w.conn_alive(i) || w.hostile_seen[i])) || w.blackhole.is_some() {
                            ctx.label("broadcast_with_dead_client");
                        }
                        XOp::Broadcast { ch: ch.id, len, recipients, except }
                    }
                }
                2 => {
                    let i = ctx.src.below(n);
                    if !w.active[i] {
                        ctx.label("late_join");
                    }
                    w.join(i);
                    XOp::Join(i)
                }
                3 => {
                    let i = ctx.src.below(n);
                    let how = ctx.src.below(3) as u8;
                    if w.active[i] {
                        match how {
                            0 => w.server.disconnect(client_id(i)),
                            1 => w.clients[i].disconnect(),
                            _ => w.server.remove_connection(client_id(i)),
                        }
                        ctx.label("client_disconnected");
                    }
                    XOp::Disconnect { client: i, how }
                }
                4 => {
                    ctx.label("hostile_client");
                    return inject(w, ctx, 0);
                }
                _ => {
                    // stall one stream: a 1200-byte reliable message whose packets are always dropped
                    if w.blackhole.is_none() && budget >= 12_000 {
                        let d = pick_dir(&mut ctx.src, w);
                        let rel: Vec<u8> = w.dirs[d.idx()].chans.values().filter(|c| c.cfg.kind.reliable()).map(|c| c.cfg.id).collect();
                        if !rel.is_empty() && w.conn_alive(d.client) {
                            let ch = rel[ctx.src.below(rel.len())];
                            if w.send(d, ch, SLICE, true, 0)? {
                                let mid = w.dirs[d.idx()].chans[&ch].msgs.last().unwrap().mid;
                                w.blackhole = Some((d, ch, mid));
                                ctx.label("stalled_stream");
                                XOp::Stall { client: d.client, to_client: d.to_client, ch, mid }
                            } else {
                                XOp::BroadcastSkipped
                            }
                        } else {
                            XOp::BroadcastSkipped
                        }
                    } else {
                        XOp::BroadcastSkipped
                    }
                }
            };
            ctx.op(&xop);
            Ok(())
        };
        let mut step = |w: &mut World, _ctx: &mut Ctx| -> Outcome {
            // a healthy connection nobody disconnected and nobody attacked stays connected
            let _ = w;
            Ok(())
        };
        run_ops(&mut w, ctx, &ops, &mut step, &mut extra)?;
        let report = heal(&mut w, ctx, true, &mut step)?;
        let _ = report;
        // the excepted / non-recipient clients never obtained a broadcast: enforced by the per-client models
        // (an unexpected message is 'fabricated'); recipients connected the whole time got it exactly once: liveness + at-most-once.
        if fault_free {
            for ds in w.dirs.iter() {
                let d = ds.dir;
                if !w.conn_alive(d.client) || !w.active[d.client] {
                    continue;
                }
                for (id, cm) in ds.chans.iter() {
                    if cm.cfg.kind != Kind::Unreliable || cm.maybe_dropped {
                        // (a receive budget that may have been short legitimately drops unreliable messages)
                        continue;
                    }
                    for m in cm.msgs.iter() {
                        // left in a flush, every packet handed over exactly once
                        let sent = m.sent_in_flush.is_some() && m.carriers.iter().all(|c| !c.is_empty());
                        let all_once = m.carriers.iter().flatten().all(|&p| w.packets[p].handed == 1);
                        // slices more than 3 s apart are legitimately discarded (stale fragment rule)
                        let mut times: Vec<u64> = m.carriers.iter().flatten().map(|&p| w.packets[p].last_handed_ms).collect();
                        times.sort_unstable();
                        let all_once = all_once && times.windows(2).all(|t| t[1] - t[0] < 3000);
                        if sent && all_once && m.len() >= HEADER && m.obtained != 1 {
                            return Err(Fail::new(
                                "unreliable_faultfree_once",
                                format!("fault-free case: unreliable message #{} ({} bytes) on client {} channel {id} left in a flush and every packet was delivered once, but it was obtained {} times", m.serial, m.len(), d.client, m.obtained),
                            ));
                        }
                    }
                }
            }
        }
        if n >= 2 && ctx.has("broadcast_with_dead_client") {
            ctx.nontrivial = true;
        }
        Ok(())
    }
}
