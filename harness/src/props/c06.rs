//! C06 renet survives hostile packets: no panic, at worst that one connection drops.

use super::simcase::*;
use crate::engine::*;
use crate::sim::driver::*;
use crate::sim::hostile::*;
use crate::sim::world::*;
use renet::verif::{decode_packet, Packet};

pub struct C06;

fn spec(tier: Tier) -> (CfgSpec, OpSpec) {
    let mut ops = default_ops();
    ops.max_ops = tier.pick(250, 800);
    ops.ops = [70, 60, 20, 8, 20, 20, 10];
    ops.extra = 90;
    ops.max_slices = 6;
    ops.prompt_drain = 40;
    (
        CfgSpec {
            kinds: [3, 3, 3],
            chans: (1, 3),
            // also budgets smaller than one datagram's message, and none at all
            mems: &[200_000, 8_000, 20_000, 5 * 1024 * 1024, 512, 0, 1024],
            budgets: &[60_000, 6_000, 1_000_000],
            resends: RESENDS,
            clients: (4, 4),
            must_have: None,
        },
        ops,
    )
}

/// Many well-formed, empty packets whose sequence numbers are pairwise non-adjacent (ascending, descending or rotated):
/// nothing in their content is hostile, only the pattern of sequences the receiver has to remember and acknowledge.
fn sequence_pattern_burst(w: &mut World, ctx: &mut Ctx, d: Dir) -> Outcome {
    let unrel: Vec<u8> = w.dirs[d.idx()].chans.values().filter(|c| c.cfg.kind == Kind::Unreliable).map(|c| c.cfg.id).collect();
    let n = 60 + ctx.src.below(120);
    let base = ctx.src.pick(&[1_000_000u64, 0, 70_000, (1 << 31), (1 << 40)]);
    let step = ctx.src.pick(&[2u64, 3, 1 << 14, 1 << 31]);
    let mut seqs: Vec<u64> = (0..n as u64).map(|i| base + i * step).collect();
    match ctx.src.below(3) {
        0 => {}
        1 => seqs.reverse(),
        _ => {
            let r = ctx.src.below(n);
            seqs.reverse();
            seqs.rotate_left(r);
        }
    }
    ctx.op(&("sequence_pattern_burst", d.client, d.to_client, n, base, step));
    ctx.label("inject_sequence_burst");
    w.hostile_seen[d.client] = true;
    for s in seqs {
        let mut raw = RawW::new();
        match unrel.first() {
            Some(ch) => {
                raw.u8(1).varint(s).u8(*ch).u16(0);
            }
            None => {
                // an ack packet acknowledging nothing the receiver ever sent
                raw.u8(4).varint(s).varint(1 << 50).varint(0).varint(0);
            }
        }
        let pid = w.packets.len();
        w.packets.push(PktRec { dir: d, bytes: raw.buf, seq: u64::MAX, info: PInfo::Undecodable, sent_at_ms: w.now_ms, flush_no: u64::MAX, handed: 0, last_handed_ms: 0, hostile: true });
        w.handover(pid)?;
    }
    // the endpoint must still be able to produce its packets (ack list included)
    let pids = w.flush(d.rev())?;
    for pid in pids {
        w.enqueue(pid, 0);
    }
    Ok(())
}

pub fn inject(w: &mut World, ctx: &mut Ctx, victim: usize) -> Outcome {
    let to_client = ctx.src.chance(110);
    let d = Dir { client: victim, to_client };
    if ctx.src.chance(20) && w.receiver(d).map(|r| !r.is_disconnected()).unwrap_or(false) {
        return sequence_pattern_burst(w, ctx, d);
    }
    let (bytes, what) = gen_hostile(&mut ctx.src, w, d);
    ctx.op(&what);
    // state of the targeted channel before the injection (non-triviality)
    let parsed = decode_packet(&bytes).ok();
    let mut reaches_state = false;
    if let Some(p) = &parsed {
        let ch = match p {
            Packet::SmallReliable { channel_id, .. } | Packet::SmallUnreliable { channel_id, .. } | Packet::ReliableSlice { channel_id, .. } | Packet::UnreliableSlice { channel_id, .. } => Some(*channel_id),
            Packet::Ack { .. } => None,
        };
        if let (Some(ch), Some(r)) = (ch, w.receiver(d)) {
            if !r.is_disconnected() {
                let used = r.verif_receive_memory(ch).map(|m| m.0).unwrap_or(0);
                let partial = r.verif_receive_partial_messages(ch).unwrap_or(0);
                if used > 0 || partial > 0 {
                    reaches_state = true;
                }
                ctx.label("inject_parsed_channel");
            }
        }
        if matches!(p, Packet::Ack { .. }) {
            ctx.label("inject_parsed_ack");
        }
    } else {
        ctx.label("inject_unparsed");
    }
    if let Hostile::Slice { contradicts: true, .. } = what {
        ctx.label("inject_contradicting_slice");
    }
    if parsed.is_none() && ctx.src.chance(200) {
        // unparsable bytes mostly go to a scratch endpoint of the same configuration, so that the live
        // victim survives long enough for state-dependent injections
        let mut scratch = renet::RenetClient::new(w.cfg.connection_config());
        scratch.process_packet(&bytes);
        let _ = scratch.get_packets_to_send();
        if !scratch.is_disconnected() {
            return Err(Fail::new("unparsable_accepted", "a packet the decoder rejects did not disconnect the connection"));
        }
        ctx.label("inject_scratch");
        return Ok(());
    }
    let was_connected = w.receiver(d).map(|r| !r.is_disconnected()).unwrap_or(false);
    // record as a hostile packet and hand it over like any other
    let pid = w.packets.len();
    w.packets.push(PktRec { dir: d, bytes, seq: u64::MAX, info: PInfo::Undecodable, sent_at_ms: w.now_ms, flush_no: u64::MAX, handed: 0, last_handed_ms: 0, hostile: true });
    w.hostile_seen[victim] = true;
    w.handover(pid)?;
    if was_connected {
        if reaches_state {
            ctx.label("inject_reached_state");
        }
        let Some(r) = w.receiver(d) else {
            return Err(Fail::new("connection_vanished", "the connection a packet was handed to is gone from the server's table right after the call (neither processed nor left disconnected with a reason)"));
        };
        if r.is_disconnected() {
            ctx.label("victim_disconnected");
            if r.disconnect_reason().is_none() {
                return Err(Fail::new("disconnect_without_reason", "connection is disconnected but reports no reason"));
            }
        }
    }
    // every API of the endpoint keeps working
    if to_client {
        let c = &mut w.clients[victim];
        let _ = (c.is_connected(), c.is_connecting(), c.rtt(), c.packet_loss(), c.bytes_sent_per_sec(), c.bytes_received_per_sec());
    } else {
        let id = client_id(victim);
        let _ = (w.server.is_connected(id), w.server.rtt(id), w.server.packet_loss(id), w.server.clients_id(), w.server.disconnections_id(), w.server.connected_clients());
        let _ = w.server.network_info(id);
    }
    Ok(())
}

/// Scripted live session with reassemblies in progress; returns the world and the pids of genuine packets
/// (one per kind) that are still in flight towards the victim client, plus one ack travelling to the server.
fn scripted() -> Result<(World, Vec<usize>), Fail> {
    let chans = vec![
        Chan { id: 0, kind: Kind::Unreliable, max_mem: 100_000, resend_ms: 100 },
        Chan { id: 1, kind: Kind::Ordered, max_mem: 100_000, resend_ms: 100 },
        Chan { id: 2, kind: Kind::Unordered, max_mem: 100_000, resend_ms: 100 },
    ];
    let cfg = WorldCfg { bytes_per_tick: 1_000_000, s2c: chans.clone(), c2s: chans, n_clients: 2, id_scheme: 0 };
    let mut w = World::new(cfg, Oracles { content: true, memory: true, exclude_clients: vec![0], ..Default::default() });
    let d = Dir { client: 0, to_client: true };
    // bystander traffic
    let b = Dir { client: 1, to_client: true };
    w.send(b, 1, 3000, true, 0)?;
    w.send(b, 2, 40, true, 0)?;
    // victim traffic: packed small reliable, sliced reliable (ordered and unordered), small and sliced unreliable
    for _ in 0..3 {
        w.send(d, 1, 30, true, 0)?;
    }
    w.send(d, 1, 2 * SLICE + 7, true, 0)?;
    w.send(d, 2, 2 * SLICE + 9, true, 0)?;
    w.send(d, 0, 20, true, 0)?;
    w.send(d, 0, 21, true, 0)?;
    w.send(d, 0, 2 * SLICE + 11, true, 0)?;
    w.advance(16);
    let pids = w.flush(d)?;
    for pid in w.flush(b)? {
        w.enqueue(pid, 0);
    }
    // hand over the first slice of every sliced message (reassemblies in progress) and keep one packet of each kind back
    let mut samples: Vec<usize> = vec![];
    let mut seen_kinds = std::collections::BTreeSet::new();
    for &pid in pids.iter() {
        let (kind, first_slice) = match &w.packets[pid].info {
            PInfo::SmallRel { .. } => (0, false),
            PInfo::SmallUnrel { .. } => (1, false),
            PInfo::RelSlice { ch, idx, .. } => (2 + *ch as usize * 10, *idx == 0),
            PInfo::UnrelSlice { idx, .. } => (3, *idx == 0),
            _ => (9, false),
        };
        if first_slice {
            w.handover(pid)?;
        } else if seen_kinds.insert(kind) {
            samples.push(pid);
        } else {
            w.enqueue(pid, 0);
        }
    }
    // an ack packet travelling from the victim client to the server
    let acks = w.flush(d.rev())?;
    if let Some(&a) = acks.last() {
        samples.push(a);
    }
    Ok((w, samples))
}

/// Every truncation of, and every value of each of the first 24 bytes of, genuine packets of every kind, injected into a
/// live session whose channels hold reassemblies in progress; afterwards the genuine traffic continues.
fn tamper_enum(index: u64, ctx: &mut Ctx) -> Outcome {
    let (mut w, samples) = scripted()?;
    let per: u64 = 1300 + 24 * 256;
    let s = (index / per) as usize;
    let k = (index % per) as usize;
    let Some(&pid) = samples.get(s) else { return Ok(()) };
    let mut bytes = w.packets[pid].bytes.clone();
    if k < 1300 {
        if k >= bytes.len() {
            return Ok(());
        }
        bytes.truncate(k);
    } else {
        let i = (k - 1300) / 256;
        let v = ((k - 1300) % 256) as u8;
        if i >= bytes.len() || bytes[i] == v {
            return Ok(());
        }
        bytes[i] = v;
    }
    ctx.op(&(s, k));
    ctx.nontrivial = true;
    let d = w.packets[pid].dir;
    let hp = w.packets.len();
    w.packets.push(PktRec { dir: d, bytes, seq: u64::MAX, info: PInfo::Undecodable, sent_at_ms: w.now_ms, flush_no: u64::MAX, handed: 0, last_handed_ms: 0, hostile: true });
    w.hostile_seen[0] = true;
    w.handover(hp)?;
    w.step_check()?;
    // the genuine packets follow, the session goes on
    for &p in samples.iter() {
        w.handover(p)?;
    }
    w.step_check()?;
    let mut none = |_: &mut World, _: &mut Ctx| -> Outcome { Ok(()) };
    for _ in 0..6 {
        heal_tick(&mut w, ctx, &mut none)?;
    }
    // the bystander is untouched
    for to_client in [false, true] {
        let b = Dir { client: 1, to_client };
        if let Some(r) = w.sender_reason(b) {
            return Err(Fail::new("bystander_disconnected", format!("the well-behaved second connection was disconnected: {r:?}")));
        }
        if w.outstanding(b).1 != 0 {
            return Err(Fail::new("bystander_stalled", "the well-behaved second connection did not receive its messages"));
        }
    }
    Ok(())
}

impl Property for C06 {
    fn id(&self) -> &'static str {
        "C06"
    }
    fn level(&self) -> &'static str {
        "exploration"
    }
    fn rule(&self) -> String {
        "A case = live renet server with a victim and a bystander connection (and their clients) running generated honest traffic under faults, interleaved with injections into either endpoint of the victim connection. Injected bytes: field-targeted packets from the harness's own raw writer (every kind; sequence / message id / slice index / slice count / declared length at 0, 1, cursor+-1, count-1, count, count+1, 10^6, 10^6+1, 2^30, 2^62-1; payload 0/1/1199/1200/1201 and 1300 .. 65 000 bytes (what a UDP datagram can carry); slices aimed at a message in reassembly with a contradicting count or an index beyond it; ack packets with reversed/overlapping/huge/10^4 ranges), mutations/truncations/splices of genuine packets just captured, raw bytes; and bursts of 60-180 well-formed empty packets whose sequence numbers are pairwise non-adjacent (ascending / descending / rotated, steps 2 .. 2^31), after which the endpoint must still produce its packets. Enumerated on a scripted session with reassemblies in progress on three channels: every truncation of, and every value of each of the first 24 bytes of, a genuine packet of every kind. Oracles: no call unwinds (overflow checks on); a disconnected endpoint reports a reason; all later calls on the victim and on the bystander return normally; after every call 0 <= used <= max on every receive and send channel of both connections; the bystander keeps the C01/C02/C03 content oracles, is never disconnected and gets everything within the liveness bound. Non-trivial: an injection that parses and reaches a channel holding buffered or partially reassembled data. Distinct = hash of the decoded operation trace.".into()
    }
    fn assumptions(&self) -> Vec<String> {
        vec!["channel ids used by the application exist (the API documents a panic otherwise)".into(), "message contents on the victim connection are not judged: at this layer whoever can inject packets is the peer".into()]
    }
    fn pbt(&self, tier: Tier) -> PbtCfg {
        PbtCfg { cases: tier.pick(200_000, 3_000_000), max_len: tier.pick(2000, 6000), shrink_ms: 120_000 }
    }
    fn required_labels(&self) -> Vec<&'static str> {
        vec!["inject_reached_state", "inject_contradicting_slice", "inject_parsed_ack", "inject_unparsed", "victim_disconnected", "healed_complete", "inject_sequence_burst"]
    }
    fn enums(&self, _tier: Tier) -> Vec<(&'static str, u64)> {
        // 7 sample packets (small reliable, small unreliable, ordered slice, unordered slice, unreliable slice, ack) x
        // (every truncation + 256 values of each of the first 24 bytes)
        vec![("tamper_genuine_packets", 7 * (1300 + 24 * 256))]
    }
    fn run_enum(&self, _name: &str, index: u64, ctx: &mut Ctx) -> Outcome {
        tamper_enum(index, ctx)
    }
    fn run_choices(&self, ctx: &mut Ctx) -> Outcome {
        let (cfgspec, ops) = spec(ctx.tier);
        let cfg = gen_cfg(&mut ctx.src, &cfgspec);
        ctx.op(&cfg);
        const BYSTANDER: usize = 3;
        let mut w = World::new(cfg, Oracles { content: true, memory: true, exclude_clients: vec![0, 1, 2], ..Default::default() });
        let mut bystander_check = |w: &mut World, _ctx: &mut Ctx| -> Outcome {
            for to_client in [false, true] {
                let d = Dir { client: BYSTANDER, to_client };
                if let Some(r) = w.sender_reason(d) {
                    if !is_mem_reason(&r) {
                        return Err(Fail::new("bystander_disconnected", format!("the well-behaved second connection was disconnected: {r:?}")));
                    }
                }
            }
            Ok(())
        };
        let mut extra = |w: &mut World, ctx: &mut Ctx| -> Outcome {
            // the current victim is the first victim connection still alive (three lives per case)
            let victim = (0..BYSTANDER).find(|&i| w.conn_alive(i)).unwrap_or(0);
            inject(w, ctx, victim)
        };
        run_ops(&mut w, ctx, &ops, &mut bystander_check, &mut extra)?;
        // heal: the bystander must get everything (victim excluded from the obligation)
        heal(&mut w, ctx, true, &mut bystander_check)?;
        if ctx.has("inject_reached_state") {
            ctx.nontrivial = true;
        }
        Ok(())
    }
}
