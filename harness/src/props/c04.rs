//! C04 Netcode payloads: only authentic ones surface, each at most once (anti-replay).

use crate::engine::*;
use crate::sim::net::*;
use renetcode::verif::Packet as NPacket;
use std::collections::BTreeSet;
use std::time::Duration;

pub struct C04;

struct Lane {
    /// pool ids of the genuine payload datagrams of this session and direction, by increasing sequence
    dids: Vec<usize>,
    base: u64,
    accepted: BTreeSet<u64>,
    max: Option<u64>,
    surfaced: Vec<bool>,
    forged_first: Vec<bool>,
}

impl Lane {
    fn within_window(&self, seq: u64) -> bool {
        match self.max {
            None => true,
            Some(m) => seq > m || m - seq < 256,
        }
    }
}

#[derive(Debug, Hash)]
enum Op {
    Present { session: usize, to_client: bool, idx: usize, seq: u64, variant: &'static str, surfaced: bool },
}

const PRESETS: &[Option<u64>] = &[None, Some(300), Some(256 * 40 - 3), Some((1 << 32) - 5), Some((1 << 56) - 3), Some(1 << 63), Some(u64::MAX - 5000)];

/// Model-based case on the replay window itself (re-exported by the hook): the window must reject a sequence accepted
/// before and accept a fresh one that is less than 256 behind the highest accepted one.
fn replay_window_case(ctx: &mut Ctx) -> Outcome {
    use renetcode::verif::ReplayProtection;
    let mut rp = ReplayProtection::new();
    let mut accepted: BTreeSet<u64> = BTreeSet::new();
    // ReplayProtection::new() starts with most_recent_sequence = 0 and nothing received
    let base = ctx.src.pick(&[0u64, 200, 256 * 3, (1 << 32) - 300, (1 << 56) - 10, (1 << 63) - 128, u64::MAX - 2000]);
    let n = 50 + ctx.src.below(ctx.tier.pick(400, 1500));
    ctx.op(&("replay_window", base, n));
    let mut behind = false;
    for _ in 0..n {
        let max = accepted.iter().next_back().copied();
        let m = max.unwrap_or(base);
        let seq = match ctx.src.weighted(&[8, 4, 3, 3, 3, 3, 3, 3]) {
            0 => m.saturating_add(1),
            1 => m.saturating_add(1 + ctx.src.below(300) as u64),
            2 => m,
            3 => m.saturating_sub(ctx.src.below(8) as u64),
            4 => m.saturating_sub(255),
            5 => m.saturating_sub(256),
            6 => m.saturating_sub(256 * (1 + ctx.src.below(3) as u64) + ctx.src.pick(&[0u64, 1, 255])),
            _ => m.saturating_sub(ctx.src.below(300) as u64),
        }
        .max(base)
        // 2^64-1 is the window's 'empty' marker and cannot be followed by another sequence: not a usable sequence number
        .min(u64::MAX - 1);
        // the statement fixes two of the three classes: accepted before -> rejected; fresh and less than 256 behind -> accepted.
        // A fresh sequence 256 or more behind may go either way (the window cannot remember it); whatever the structure decides
        // is recorded, so a later replay of it is judged like any other
        let replay = accepted.contains(&seq);
        let far_behind = max.map(|mx| mx >= seq && mx - seq >= 256).unwrap_or(false);
        let got_reject = rp.already_received(seq);
        if (replay && !got_reject) || (!replay && !far_behind && got_reject) {
            return Err(Fail::new(
                if got_reject { "window_rejects_fresh" } else { "window_accepts_replay" },
                format!("replay window: sequence {seq} (highest accepted {max:?}, accepted before: {replay}) -> already_received = {got_reject}"),
            ));
        }
        if far_behind && !replay {
            ctx.label(if got_reject { "far_behind_rejected" } else { "far_behind_accepted" });
        }
        if !got_reject {
            rp.advance_sequence(seq);
            if max.map(|mx| seq < mx).unwrap_or(false) {
                behind = true;
            }
            accepted.insert(seq);
        }
    }
    ctx.label("replay_window_model");
    if behind {
        ctx.nontrivial = true;
    }
    Ok(())
}

impl Property for C04 {
    fn id(&self) -> &'static str {
        "C04"
    }
    fn level(&self) -> &'static str {
        "exploration"
    }
    fn rule(&self) -> String {
        "A case = 1-3 sessions connected to one secure server (fresh token each; in half of the cases one or two other clients connected before / between them and left again - kicked, or by their own disconnect packet - so the sessions live behind free slots of the server's table), per session and direction a pool of 300-1500 genuine datagrams - payloads produced by generate_payload_packet and, in some cases, the endpoint's own keep-alives interleaved with them (same counter, same replay window) - with the send counter preset to natural, 300, 256k-3, 2^32-5, 2^56-3, 2^63 or 2^64-5001; then a history of presentations whose sequence is chosen relative to the highest accepted one (next, max+k, max, max-1, max-255, max-256, max-257, max-256k, random) and whose form is genuine first-time, replay, bit-flipped / truncated / extended / prefix-modified copy, re-addressed to another session's endpoint or source address, presented in the other direction, or re-sealed with the session's own key under another protocol id or with another session's key. Model per session and direction = set of accepted sequences and their maximum (initialised with the replay-protected handshake packets). Oracles: a payload surfaces only from an unmodified genuine datagram of that session and direction, equals the bytes given to generate_payload_packet, carries that session's client id, and no datagram surfaces twice; an unmodified genuine datagram presented for the first time while less than 256 behind the highest accepted sequence must surface, also after rejected forgeries carrying the same sequence. A fifth of the cases instead drive the replay window structure itself (hook re-export) with 50-1500 sequence numbers chosen around the highest accepted one at magnitudes up to 2^64-2001 and compare already_received with the reference rule (reject what was accepted before, accept what is fresh and less than 256 behind; a fresh sequence further behind may go either way and is remembered if accepted). Non-trivial: a replay of an accepted datagram, presentations exactly 255 and 256 behind, and a forged copy presented before its genuine original. Distinct = hash of the decoded operation trace.".into()
    }
    fn assumptions(&self) -> Vec<String> {
        vec![
            "one fresh token per session (token re-use across sessions is outside the statement)".into(),
            "re-sealing with the right key, protocol id and a fresh sequence is not a forgery (the attacker has no keys)".into(),
            "sequence number 2^64-1 is outside the domain (it is the replay window's empty marker and the send counter cannot pass it)".into(),
        ]
    }
    fn pbt(&self, tier: Tier) -> PbtCfg {
        PbtCfg { cases: tier.pick(30_000, 400_000), max_len: tier.pick(1200, 4000), shrink_ms: 120_000 }
    }
    fn required_labels(&self) -> Vec<&'static str> {
        vec!["replay_of_accepted", "behind_255", "behind_256", "forged_before_genuine", "genuine_after_forgery", "readdressed", "other_protocol", "other_key", "wide_sequence", "out_of_order_accept", "replay_window_model", "keepalive_interleaved", "keepalive_presented", "free_slot_before_session"]
    }
    fn run_choices(&self, ctx: &mut Ctx) -> Outcome {
        if ctx.src.chance(50) {
            return replay_window_case(ctx);
        }
        let seed = ctx.src.u16() as u64;
        let mut nw = NetWorld::new(seed);
        nw.servers.push(mk_server(0, 1, PROTO, 6, nw.now, true));
        let sessions = 1 + ctx.src.below(3);
        let pool_n = ctx.tier.pick(300 + ctx.src.below(400), 400 + ctx.src.below(1100));
        let dt = Duration::from_millis(20);
        // In half of the cases other clients connected before / between the sessions of the case and have left again (kicked by the
        // server, or by their own disconnect packet) when the history starts: the sessions of the case then live behind free slots of
        // the server's table.
        let ghosts = match (seed >> 5) % 4 {
            0 | 1 => 0,
            2 => 1,
            _ => 2,
        };
        for i in 0..sessions + ghosts {
            let id = if i < sessions { 90 + i as u64 } else { 70 + (i - sessions) as u64 };
            let t = nw.mint(&TokenSpec { client_id: id, user: i as u64, expire_seconds: 600, timeout: -1, addrs: vec![server_addr(0)], key: key(1), protocol: PROTO });
            nw.add_client(t, client_addr(i), i as u64);
        }
        let mut order: Vec<usize> = vec![];
        for i in 0..sessions.max(ghosts) {
            if i < ghosts {
                order.push(sessions + i);
            }
            if i < sessions {
                order.push(i);
            }
        }
        for &i in &order {
            if !nw.handshake(0, i, dt, 20) {
                return Err(Fail::new("stage", "honest handshake failed"));
            }
        }
        for g in 0..ghosts {
            let gid = 70 + g as u64;
            if (seed >> 7) & 1 == g as u64 & 1 {
                nw.server_disconnect(0, gid);
            } else if let Some(did) = nw.client_disconnect(sessions + g) {
                let d = nw.pool[did].clone();
                nw.server_recv(0, d.src, &d.bytes);
            }
            if nw.servers[0].server.is_client_connected(gid) {
                // whether a disconnect packet is honoured is not this property's business
                nw.server_disconnect(0, gid);
            }
            ctx.label("free_slot_before_session");
        }
        // lanes[session][to_client]
        let mut lanes: Vec<[Lane; 2]> = vec![];
        for i in 0..sessions {
            let id = 90 + i as u64;
            let mut pair: Vec<Lane> = vec![];
            for to_client in [false, true] {
                let preset = PRESETS[ctx.src.below(PRESETS.len())];
                if let Some(p) = preset {
                    if to_client {
                        nw.servers[0].server.verif_set_client_sequence(id, p);
                    } else {
                        nw.clients[i].client.verif_set_sequence(p);
                    }
                    if p >= 1 << 32 {
                        ctx.label("wide_sequence");
                    }
                }
                // sequences already accepted on this lane during the handshake (replay-protected kinds only)
                let mut accepted = BTreeSet::new();
                for d in nw.pool.iter() {
                    let on_lane = if to_client { d.from == Emitter::Server(0) && d.to == client_addr(i) } else { d.from == Emitter::Client(i) };
                    if on_lane && d.presented > 0 && matches!(d.kind, 4 | 5 | 6) {
                        accepted.insert(d.seq);
                    }
                }
                let mut dids: Vec<usize> = vec![];
                let mut base = 0;
                // in some cases the endpoint's own keep-alives (emitted after 300 ms without sending) are interleaved with the payloads:
                // they share the send counter and the peer's replay window with them
                let interleave = ctx.src.chance(110);
                for k in 0..pool_n {
                    if interleave && k % 23 == 11 {
                        let ka = if to_client {
                            nw.now += Duration::from_millis(300);
                            nw.server_advance(0, Duration::from_millis(300));
                            match nw.server_update_client(0, id) {
                                SrvOut::Send { did, .. } => Some(did),
                                _ => None,
                            }
                        } else {
                            nw.client_update(i, Duration::from_millis(300))
                        };
                        if let Some(did) = ka {
                            if nw.pool[did].kind != 4 {
                                return Err(Fail::new("stage", format!("update after 300 ms of silence produced a datagram of kind {} instead of a keep-alive", nw.pool[did].kind)).sig("harness_io"));
                            }
                            if dids.last().map(|&l| nw.pool[l].seq >= nw.pool[did].seq).unwrap_or(false) {
                                return Err(Fail::new("sequence_not_increasing", format!("keep-alive after packet {k} carries sequence {}, the packet before it {}", nw.pool[did].seq, nw.pool[*dids.last().unwrap()].seq)));
                            }
                            dids.push(did);
                            ctx.label("keepalive_interleaved");
                            continue;
                        }
                    }
                    let len = match k % 50 {
                        0 => 0,
                        1 => 1300,
                        _ => 8 + (k % 24),
                    };
                    let mut p = vec![0u8; len];
                    fill_stream(((i as u64) << 40) ^ ((to_client as u64) << 32) ^ k as u64, &mut p);
                    let did = if to_client { nw.server_payload(0, id, &p) } else { nw.client_payload(i, &p) }.map_err(|e| Fail::new("generate_refused", e))?;
                    // the send counter must grow (the sequence is the nonce and the replay window's key); it need not be consecutive
                    if k == 0 {
                        base = nw.pool[did].seq;
                    } else if nw.pool[*dids.last().unwrap()].seq >= nw.pool[did].seq {
                        return Err(Fail::new("sequence_not_increasing", format!("payload packet {k} carries sequence {}, the packet before it {}", nw.pool[did].seq, nw.pool[*dids.last().unwrap()].seq)));
                    }
                    dids.push(did);
                }
                let max = accepted.iter().next_back().copied();
                pair.push(Lane { dids, base, accepted, max, surfaced: vec![false; pool_n], forged_first: vec![false; pool_n] });
                ctx.op(&(i, to_client, preset));
            }
            let b = pair.pop().unwrap();
            let a = pair.pop().unwrap();
            lanes.push([a, b]);
        }
        let max_ops = ctx.tier.pick(400, 1500);
        let mut ops = 0;
        let mut cursor = vec![[0usize; 2]; sessions];
        while !ctx.src.exhausted() && ops < max_ops {
            ops += 1;
            let s = ctx.src.below(sessions);
            let to_client = ctx.src.chance(128);
            let li = to_client as usize;
            let n = lanes[s][li].dids.len();
            // choose the sequence relative to the highest accepted one
            // pool index of the highest accepted sequence (or of the last pool entry below it)
            let max_idx: Option<usize> = lanes[s][li].max.filter(|m| *m >= lanes[s][li].base).map(|m| lanes[s][li].dids.partition_point(|&d| nw.pool[d].seq <= m)).filter(|&x| x > 0).map(|x| x - 1);
            let cls = ctx.src.weighted(&[10, 5, 3, 3, 4, 4, 3, 3, 4]);
            let idx = match (cls, max_idx) {
                (0, _) | (_, None) => {
                    let c = cursor[s][li];
                    cursor[s][li] = (c + 1).min(n - 1);
                    c
                }
                (1, Some(m)) => (m + 1 + ctx.src.below(300)).min(n - 1),
                (2, Some(m)) => m,
                (3, Some(m)) => m.saturating_sub(1),
                (4, Some(m)) => m.saturating_sub(255),
                (5, Some(m)) => m.saturating_sub(256),
                (6, Some(m)) => m.saturating_sub(257),
                (7, Some(m)) => m.saturating_sub(256 * (1 + ctx.src.below(3))),
                (_, Some(_)) => ctx.src.below(n),
            };
            let did = lanes[s][li].dids[idx];
            let d = nw.pool[did].clone();
            let seq = d.seq;
            let variant = ctx.src.weighted(&[12, 6, 3, 2, 2, 2]);
            let id = 90 + s as u64;
            // what would surface, and where
            let present = |nw: &mut NetWorld, session: usize, to_client: bool, from_addr_of: usize, bytes: &[u8]| -> Option<(u64, Vec<u8>)> {
                if to_client {
                    nw.client_recv(session, bytes).map(|p| (90 + session as u64, p))
                } else {
                    match nw.server_recv(0, client_addr(from_addr_of), bytes) {
                        SrvOut::Payload { client_id, payload } => Some((client_id, payload)),
                        _ => None,
                    }
                }
            };
            let (vname, surfaced) = match variant {
                0 if d.kind == 4 => {
                    // a genuine keep-alive of the lane: never surfaces anything, but is recorded in the replay window like a payload
                    let first = nw.pool[did].presented == 0;
                    let lane = &lanes[s][li];
                    let fresh = first && !lane.accepted.contains(&seq) && lane.within_window(seq);
                    nw.pool[did].presented += 1;
                    if let Some((cid, p)) = present(&mut nw, s, to_client, s, &d.bytes) {
                        return Err(Fail::new("keepalive_surfaced", format!("a keep-alive surfaced a payload of {} bytes under client id {cid}", p.len())));
                    }
                    if fresh {
                        let lane = &mut lanes[s][li];
                        lane.accepted.insert(seq);
                        lane.max = Some(lane.max.map(|m| m.max(seq)).unwrap_or(seq));
                        ctx.label("keepalive_presented");
                    }
                    ("keepalive", false)
                }
                0 => {
                    // the unmodified genuine datagram (first time or replay)
                    let first = nw.pool[did].presented == 0;
                    let lane = &lanes[s][li];
                    let in_window = lane.within_window(seq);
                    if let Some(m) = lane.max {
                        if m >= seq {
                            match m - seq {
                                255 => ctx.label("behind_255"),
                                256 => ctx.label("behind_256"),
                                _ => {}
                            }
                            if first && m > seq && in_window {
                                ctx.label("out_of_order_accept");
                            }
                        }
                    }
                    if !first && lane.accepted.contains(&seq) {
                        ctx.label("replay_of_accepted");
                    }
                    if first && lane.forged_first[idx] {
                        ctx.label("genuine_after_forgery");
                    }
                    nw.pool[did].presented += 1;
                    let got = present(&mut nw, s, to_client, s, &d.bytes);
                    let lane = &mut lanes[s][li];
                    match got {
                        Some((cid, p)) => {
                            if cid != id {
                                return Err(Fail::new("wrong_client_id", format!("payload of session {s} (client id {id}) surfaced under client id {cid}")));
                            }
                            if Some(&p) != d.payload.as_ref() {
                                return Err(Fail::new("payload_altered", format!("surfaced payload differs from the bytes given to generate_payload_packet (sequence {seq})")));
                            }
                            if lane.surfaced[idx] {
                                return Err(Fail::new("surfaced_twice", format!("the genuine datagram with sequence {seq} of session {s} ({}) surfaced a second time; highest accepted {:?}", if to_client { "server->client" } else { "client->server" }, lane.max)));
                            }
                            lane.surfaced[idx] = true;
                            lane.accepted.insert(seq);
                            lane.max = Some(lane.max.map(|m| m.max(seq)).unwrap_or(seq));
                            ("genuine", true)
                        }
                        None => {
                            if first && !lane.accepted.contains(&seq) && in_window {
                                return Err(Fail::new(
                                    "genuine_rejected",
                                    format!(
                                        "a genuine datagram presented for the first time was not surfaced: session {s} {}, sequence {seq}, highest accepted {:?} (distance {:?}), forged copy seen before: {}",
                                        if to_client { "server->client" } else { "client->server" },
                                        lane.max,
                                        lane.max.map(|m| m as i128 - seq as i128),
                                        lane.forged_first[idx]
                                    ),
                                ));
                            }
                            ("genuine", false)
                        }
                    }
                }
                1 => {
                    let (b, m) = mutate(&mut ctx.src, &d.bytes);
                    if m == Mutation::None {
                        continue;
                    }
                    if nw.pool[did].presented == 0 {
                        lanes[s][li].forged_first[idx] = true;
                        ctx.label("forged_before_genuine");
                    }
                    if let Some((cid, p)) = present(&mut nw, s, to_client, s, &b) {
                        return Err(Fail::new("forged_surfaced", format!("a modified datagram ({m:?}) surfaced a payload of {} bytes under client id {cid}", p.len())));
                    }
                    ("mutated", false)
                }
                2 => {
                    // re-addressed: to another session's endpoint / from another session's address, or in the other direction
                    ctx.label("readdressed");
                    let other = if sessions > 1 { (s + 1 + ctx.src.below(sessions - 1)) % sessions } else { s };
                    let got = if other == s {
                        // same session, presented in the wrong direction
                        present(&mut nw, s, !to_client, s, &d.bytes)
                    } else if to_client {
                        present(&mut nw, other, true, other, &d.bytes)
                    } else {
                        present(&mut nw, s, false, other, &d.bytes)
                    };
                    if let Some((cid, p)) = got {
                        return Err(Fail::new("misdelivered_surfaced", format!("a datagram of session {s} presented at the wrong endpoint/address/direction surfaced {} bytes under client id {cid}", p.len())));
                    }
                    ("readdressed", false)
                }
                3 => {
                    // the same payload sealed with the right key under another protocol id
                    ctx.label("other_protocol");
                    let t = &nw.clients[s].token;
                    let k = if to_client { t.server_to_client_key } else { t.client_to_server_key };
                    let payload = d.payload.clone().unwrap_or_default();
                    let b = seal(&NPacket::Payload(&payload), PROTO_OTHER, seq, &k);
                    if nw.pool[did].presented == 0 {
                        lanes[s][li].forged_first[idx] = true;
                    }
                    if let Some((cid, p)) = present(&mut nw, s, to_client, s, &b) {
                        return Err(Fail::new("other_protocol_surfaced", format!("a payload sealed for another protocol id surfaced ({} bytes, client id {cid})", p.len())));
                    }
                    ("other_protocol", false)
                }
                4 => {
                    // sealed under another session's keys (or the other direction's key) with this sequence
                    ctx.label("other_key");
                    let other = (s + 1) % sessions;
                    let t = &nw.clients[other].token;
                    let k = if other == s {
                        if to_client { t.client_to_server_key } else { t.server_to_client_key }
                    } else if to_client {
                        t.server_to_client_key
                    } else {
                        t.client_to_server_key
                    };
                    let payload = d.payload.clone().unwrap_or_default();
                    let b = seal(&NPacket::Payload(&payload), PROTO, seq, &k);
                    if nw.pool[did].presented == 0 {
                        lanes[s][li].forged_first[idx] = true;
                    }
                    if let Some((cid, p)) = present(&mut nw, s, to_client, s, &b) {
                        return Err(Fail::new("other_key_surfaced", format!("a payload sealed under another key surfaced ({} bytes, client id {cid})", p.len())));
                    }
                    ("other_key", false)
                }
                _ => {
                    // a keep-alive or disconnect kind carrying this sequence under the right key would be authentic: not generated.
                    // instead: prefix kind changed on the genuine bytes (payload -> keep-alive / disconnect)
                    let mut b = d.bytes.clone();
                    b[0] = (b[0] & 0xF0) | ctx.src.pick(&[4u8, 6, 1, 2, 3]);
                    if b == d.bytes {
                        // a keep-alive of the pool keeps its kind: that is the genuine datagram, not a forgery
                        continue;
                    }
                    if nw.pool[did].presented == 0 {
                        lanes[s][li].forged_first[idx] = true;
                    }
                    let before_connected = nw.servers[0].server.is_client_connected(id) && nw.clients[s].client.is_connected();
                    if let Some((cid, p)) = present(&mut nw, s, to_client, s, &b) {
                        return Err(Fail::new("forged_surfaced", format!("a datagram with a rewritten packet type surfaced {} bytes under client id {cid}", p.len())));
                    }
                    if before_connected && !(nw.servers[0].server.is_client_connected(id) && nw.clients[s].client.is_connected()) {
                        return Err(Fail::new("forged_disconnected", "a datagram with a rewritten packet type ended the session"));
                    }
                    ("retyped", false)
                }
            };
            ctx.op(&Op::Present { session: s, to_client, idx, seq, variant: vname, surfaced });
        }
        if ctx.has("replay_of_accepted") && ctx.has("behind_255") && ctx.has("behind_256") && ctx.has("forged_before_genuine") {
            ctx.nontrivial = true;
        }
        Ok(())
    }
}
