//! C17 AEAD discipline: sealed data is tamper-evident, no nonce reused under a key.

use crate::engine::*;
use crate::sim::net::*;
use renetcode::verif::{verif_open_private_token, Packet as NPacket};
use std::collections::HashMap;
use std::time::Duration;

pub struct C17;

const TOKEN_BITS: u64 = (1024 + 24 + 8 + 8) * 8;

/// One sample session; returns the world with a pool holding every packet kind.
fn sample_world(seed: u64, big_payload: bool) -> Result<NetWorld, Fail> {
    let mut nw = NetWorld::new(seed);
    nw.servers.push(mk_server(0, 1, PROTO, 1, nw.now, true));
    for i in 0..2 {
        let t = nw.mint(&TokenSpec { client_id: 500 + i as u64, user: i as u64, expire_seconds: 600, timeout: 15, addrs: vec![server_addr(0)], key: key(1), protocol: PROTO });
        nw.add_client(t, client_addr(i), i as u64);
    }
    let dt = Duration::from_millis(20);
    if !nw.handshake(0, 0, dt, 20) {
        return Err(Fail::new("stage", "sample handshake failed"));
    }
    // second client: request -> denied (server full)
    let so = nw.honest_step(1, dt, false, false);
    if !matches!(so.out, SrvOut::Send { .. }) {
        return Err(Fail::new("stage", "full server did not answer the second client"));
    }
    let p = vec![0xabu8; if big_payload { 1300 } else { 33 }];
    nw.client_payload(0, &p).map_err(|e| Fail::new("stage", e))?;
    nw.server_payload(0, 500, &p).map_err(|e| Fail::new("stage", e))?;
    nw.now += Duration::from_millis(300);
    let _ = nw.server_tick(0, Duration::from_millis(300));
    let _ = nw.client_update(0, Duration::from_millis(300));
    let _ = nw.client_disconnect(0);
    let _ = nw.server_disconnect(0, 500);
    Ok(nw)
}

/// Key under which a sample datagram was sealed (by emitter and addressee).
fn key_of(nw: &NetWorld, d: &Dgram) -> Option<[u8; 32]> {
    match d.from {
        Emitter::Client(c) => Some(nw.clients[c].token.client_to_server_key),
        Emitter::Server(_) => nw.clients.iter().find(|c| c.addr == d.to).map(|c| c.token.server_to_client_key),
        Emitter::Harness => None,
    }
}

fn opens(bytes: &[u8], protocol: u64, key: &[u8; 32]) -> bool {
    let mut b = bytes.to_vec();
    NPacket::decode(&mut b, protocol, Some(key), None).is_ok()
}

/// Sample datagrams of every sealed kind: (index in pool).
fn sealed_samples(nw: &NetWorld) -> Vec<usize> {
    let mut seen = std::collections::BTreeSet::new();
    let mut out = vec![];
    for (i, d) in nw.pool.iter().enumerate() {
        if d.kind != 0 && seen.insert((d.kind, matches!(d.from, Emitter::Server(_)))) {
            out.push(i);
        }
    }
    out
}

#[derive(Debug, Hash)]
enum Op {
    Honest { client: usize, lost_up: bool, lost_down: bool },
    Tick { ms: u64 },
    Payload { client: usize, to_client: bool, len: usize },
    ClientDisconnect(usize),
    ServerDisconnect(u64),
    ReplayRequest(usize),
    Spawn(usize),
    TamperedRequest { client: usize, bit: usize, own_address: bool },
    SetLimit(usize),
}

impl C17 {
    fn tamper_datagram(&self, nw: &NetWorld, i: usize, bit: Option<usize>, trunc: Option<usize>, ctx: &mut Ctx) -> Outcome {
        let d = &nw.pool[i];
        let Some(k) = key_of(nw, d) else { return Ok(()) };
        if !opens(&d.bytes, PROTO, &k) {
            return Err(Fail::new("sample_does_not_open", format!("sample datagram kind {} does not open under its own key", d.kind)));
        }
        if let Some(bit) = bit {
            let mut b = d.bytes.clone();
            b[bit / 8] ^= 1 << (bit % 8);
            if opens(&b, PROTO, &k) {
                return Err(Fail::new("bit_flip_accepted", format!("datagram kind {} ({} bytes): flipping bit {} of byte {} still decodes", d.kind, d.bytes.len(), bit % 8, bit / 8)));
            }
            ctx.nontrivial = true;
        }
        if let Some(n) = trunc {
            if opens(&d.bytes[..n], PROTO, &k) {
                return Err(Fail::new("truncation_accepted", format!("datagram kind {} truncated from {} to {n} bytes still decodes", d.kind, d.bytes.len())));
            }
            ctx.nontrivial = true;
        }
        Ok(())
    }

    fn history_case(&self, ctx: &mut Ctx) -> Outcome {
        let mut nw = NetWorld::new(ctx.src.u16() as u64);
        let max_clients = 1 + ctx.src.below(3);
        nw.servers.push(mk_server(0, 1, PROTO, max_clients, nw.now, true));
        // a second server of the same cluster (same key): answers a request with a challenge and is silent afterwards,
        // so a client that lists it first seals responses for it, times out and falls back to server 0 with the same keys
        nw.servers.push(mk_server(1, 1, PROTO, 4, nw.now, true));
        let timeout = ctx.src.pick(&[5i32, 3, 15, 1, 2]);
        ctx.op(&(max_clients, timeout));
        let spawn = |nw: &mut NetWorld, ctx: &mut Ctx| -> usize {
            let i = nw.clients.len();
            let ident = ctx.src.below(5) as u64;
            let addrs = if ctx.src.chance(90) { vec![server_addr(1), server_addr(0)] } else { vec![server_addr(0)] };
            let t = nw.mint(&TokenSpec { client_id: 600 + ident, user: i as u64, expire_seconds: 600, timeout, addrs, key: key(1), protocol: PROTO });
            nw.add_client(t, client_addr(i), i as u64)
        };
        let mut half_answered: std::collections::BTreeSet<usize> = Default::default();
        for _ in 0..2 {
            spawn(&mut nw, ctx);
        }
        let max_ops = ctx.tier.pick(100, 350);
        let mut ops = 0;
        // (emitter, key owner, direction) -> sequence -> datagram bytes
        let mut seen: HashMap<(Emitter, usize, bool), HashMap<u64, Vec<u8>>> = HashMap::new();
        let mut scanned = 0usize;
        let mut mixed_key = false;
        let mut ever_connected: std::collections::BTreeSet<usize> = Default::default();
        while !ctx.src.exhausted() && ops < max_ops {
            ops += 1;
            let n = nw.clients.len();
            let op = match ctx.src.weighted(&[30, 10, 12, 3, 3, 6, 5, 6, 4]) {
                0 => {
                    let c = ctx.src.below(n);
                    let lost_up = ctx.src.chance(40);
                    let lost_down = ctx.src.chance(40);
                    let dt = Duration::from_millis(ctx.src.pick(&[260u64, 60, 130, 1100, 2600]));
                    // datagrams for the second server: only the first request is answered
                    let to_second = nw.clients[c].client.server_addr() == server_addr(1);
                    let so = if to_second {
                        let mut so = StepOut { sent: None, delivered: false, server: 1, out: SrvOut::None, reply: None, reply_delivered: false };
                        if let Some(did) = nw.client_update(c, dt) {
                            so.sent = Some(did);
                            let d = nw.pool[did].clone();
                            if d.to == server_addr(1) && d.kind == 0 && !half_answered.contains(&c) {
                                if let SrvOut::Send { did: r, .. } = nw.server_recv(1, d.src, &d.bytes) {
                                    half_answered.insert(c);
                                    let b = nw.pool[r].bytes.clone();
                                    nw.client_recv(c, &b);
                                    ctx.label("challenged_by_second_server");
                                }
                            } else if d.to == server_addr(0) {
                                // the update that fell back already produced a datagram for server 0
                                nw.pool[did].presented += 1;
                                so.out = nw.server_recv(0, d.src, &d.bytes);
                                if let SrvOut::Send { did: r, .. } | SrvOut::Connected { did: r, .. } = &so.out {
                                    let b = nw.pool[*r].bytes.clone();
                                    nw.client_recv(c, &b);
                                }
                                if half_answered.contains(&c) {
                                    ctx.label("fell_back_after_challenge");
                                }
                            }
                        }
                        so
                    } else {
                        nw.honest_step(c, dt, lost_up, lost_down)
                    };
                    if matches!(so.out, SrvOut::Connected { .. }) {
                        ever_connected.insert(c);
                    }
                    Op::Honest { client: c, lost_up, lost_down }
                }
                1 => {
                    let ms = ctx.src.pick(&[100u64, 260, 1000, 3500]);
                    let dt = Duration::from_millis(ms);
                    nw.now += dt;
                    for o in nw.server_tick(0, dt) {
                        if let SrvOut::Send { did, .. } | SrvOut::Disconnected { did: Some(did), .. } = o {
                            if !ctx.src.chance(60) {
                                nw.deliver_to_clients(did);
                            }
                        }
                    }
                    Op::Tick { ms }
                }
                2 => {
                    let c = ctx.src.below(n);
                    let to_client = ctx.src.chance(128);
                    let len = ctx.src.pick(&[5usize, 0, 64, 1300]);
                    let p = vec![ops as u8; len];
                    if to_client {
                        let id = nw.clients[c].client_id;
                        if nw.servers[0].server.client_addr(id) == Some(nw.clients[c].addr) {
                            if let Ok(did) = nw.server_payload(0, id, &p) {
                                if !ctx.src.chance(40) {
                                    nw.deliver_to_clients(did);
                                }
                            }
                        }
                    } else if let Ok(did) = nw.client_payload(c, &p) {
                        if !ctx.src.chance(40) {
                            let d = nw.pool[did].clone();
                            nw.server_recv(0, d.src, &d.bytes);
                        }
                    }
                    Op::Payload { client: c, to_client, len }
                }
                3 => {
                    let c = ctx.src.below(n);
                    if nw.clients[c].client.is_connected() {
                        if let Some(did) = nw.client_disconnect(c) {
                            let d = nw.pool[did].clone();
                            nw.server_recv(0, d.src, &d.bytes);
                        }
                    }
                    Op::ClientDisconnect(c)
                }
                4 => {
                    let id = 600 + ctx.src.below(5) as u64;
                    if let SrvOut::Disconnected { did: Some(did), .. } = nw.server_disconnect(0, id) {
                        nw.deliver_to_clients(did);
                    }
                    Op::ServerDisconnect(id)
                }
                5 => {
                    // a request repeated while its client is still connecting or connected (re-challenge / ignored),
                    // never after its session ended (that would be token re-use)
                    let c = ctx.src.below(n);
                    let id = nw.clients[c].client_id;
                    let session_over = ever_connected.contains(&c) && nw.servers[0].server.client_addr(id) != Some(nw.clients[c].addr);
                    if !nw.clients[c].client.is_disconnected() && !session_over {
                        if let Some(&did) = nw.clients[c].sent.iter().find(|&&d| nw.pool[d].kind == 0) {
                            let d = nw.pool[did].clone();
                            if let SrvOut::Send { did: r, .. } = nw.server_recv(0, d.src, &d.bytes) {
                                if !ctx.src.chance(60) {
                                    let b = nw.pool[r].bytes.clone();
                                    nw.client_recv(c, &b);
                                }
                            }
                        }
                    }
                    Op::ReplayRequest(c)
                }
                6 => {
                    if n < 6 {
                        Op::Spawn(spawn(&mut nw, ctx))
                    } else {
                        continue;
                    }
                }
                8 => {
                    // the application changes the client limit: keep-alives carry it, so what is sealed from now on differs
                    let k = 1 + ctx.src.below(4);
                    nw.servers[0].server.set_max_clients(k);
                    ctx.label("limit_changed");
                    Op::SetLimit(k)
                }
                _ => {
                    // a genuine request with one bit of its version, protocol id, expiry, nonce or sealed token flipped, presented in
                    // whatever state the server is in (unknown address, handshake pending, connected, full), from its own or another address
                    let c = ctx.src.below(n);
                    let Some(&did) = nw.clients[c].sent.iter().find(|&&d| nw.pool[d].kind == 0) else { continue };
                    let d = nw.pool[did].clone();
                    // byte 0 is the prefix, whose upper nibble is unused for requests
                    let bit = 8 + ctx.src.below((d.bytes.len() - 1) * 8);
                    let own_address = !ctx.src.chance(70);
                    let from = if own_address { d.src } else { client_addr(8) };
                    let mut b = d.bytes.clone();
                    b[bit / 8] ^= 1 << (bit % 8);
                    let pending = nw.servers[0].server.verif_pending_addrs().contains(&from);
                    let out = nw.server_recv(0, from, &b);
                    ctx.label(if pending { "tampered_request_while_pending" } else { "tampered_request" });
                    if out != SrvOut::None {
                        return Err(Fail::new(
                            "tampered_request_answered",
                            format!("a request of client object {c} with bit {} of byte {} flipped, presented from {from} (handshake pending there: {pending}), was answered: {out:?}", bit % 8, bit / 8),
                        ));
                    }
                    Op::TamperedRequest { client: c, bit, own_address }
                }
            };
            ctx.op(&op);
            // attribute every new datagram to a key by trial decryption with every key the harness knows
            while scanned < nw.pool.len() {
                let d = &nw.pool[scanned];
                scanned += 1;
                if d.kind == 0 {
                    continue;
                }
                let mut owner = None;
                for (ci, c) in nw.clients.iter().enumerate() {
                    for (dir, k) in [(false, c.token.client_to_server_key), (true, c.token.server_to_client_key)] {
                        if opens(&d.bytes, PROTO, &k) {
                            owner = Some((ci, dir));
                        }
                    }
                }
                let Some((ci, dir)) = owner else {
                    return Err(Fail::new("unattributable_datagram", format!("datagram kind {} emitted by {:?} opens under no session key", d.kind, d.from)));
                };
                let (_, _, seq) = parse_prefix(&d.bytes);
                let m = seen.entry((d.from, ci, dir)).or_default();
                if let Some(prev) = m.get(&seq) {
                    if *prev != d.bytes {
                        let (pk, _, _) = parse_prefix(prev);
                        return Err(Fail::new(
                            "nonce_reuse",
                            format!(
                                "{:?} sealed two different datagrams (kinds {} and {}) under the {} key of client object {ci} with the same sequence number {seq}",
                                d.from,
                                pk,
                                d.kind,
                                if dir { "server-to-client" } else { "client-to-server" }
                            ),
                        ));
                    }
                } else {
                    m.insert(seq, d.bytes.clone());
                }
                let kinds: std::collections::BTreeSet<u8> = m.values().map(|b| b[0] & 0x0F).collect();
                if kinds.iter().any(|k| matches!(k, 1 | 2)) && kinds.iter().any(|k| matches!(k, 4 | 5 | 6)) {
                    mixed_key = true;
                }
            }
        }
        if mixed_key {
            ctx.label("handshake_and_session_under_one_key");
            ctx.nontrivial = true;
        }
        Ok(())
    }
}

impl Property for C17 {
    fn id(&self) -> &'static str {
        "C17"
    }
    fn level(&self) -> &'static str {
        "exploration"
    }
    fn rule(&self) -> String {
        "(a) Enumerated on sample sessions (small and 1300-byte payloads): every single-bit position and every truncation length of one sample datagram of every sealed kind and direction (denied, challenge, response, keep-alive, payload, disconnect) must fail to decode under its own key; every sample opened under another session's key, the other direction's key or another protocol id - in particular each of the 64 ids one bit away - must fail; every single bit of a token's sealed part (1024 bytes), of its nonce and of its bound public fields protocol id and expiry, and opening under another key / protocol id / expiry must fail (hook: private token open), and the server must not answer a request so modified, whether it comes from an unknown address, from the address whose genuine request was just answered (handshake pending), while the handshake is pending at another address, or from the connected session's address. (b) Generated histories: several clients against a server with 1-3 slots, lossy handshakes with retries, requests repeated while connecting or connected (re-challenges), genuine requests with one flipped bit presented in any server state from their own or another address (must never be answered), denials on a full server, keep-alives, payloads of 0-1300 bytes, disconnects from both sides, timeouts, the client limit changed at run time (keep-alives carry it, so a repeated sequence number no longer repeats the same bytes); every datagram either side emits is attributed to a key by trial decryption with every key of the case, and per (emitting endpoint, key) no two different datagrams may carry the same sequence number. Non-trivial: (a) a tampered input; (b) a case in which one key sealed at least one handshake reply (denied / challenge) and at least one session packet. Distinct = hash of the decoded case.".into()
    }
    fn assumptions(&self) -> Vec<String> {
        vec![
            "ChaCha20-Poly1305 / XChaCha20-Poly1305 themselves are sound; the check is behavioural".into(),
            "one connection attempt and session per token (a replayed handshake that re-opens a session with the same token is token re-use, outside the statement)".into(),
        ]
    }
    fn pbt(&self, tier: Tier) -> PbtCfg {
        PbtCfg { cases: tier.pick(150_000, 3_000_000), max_len: tier.pick(500, 1600), shrink_ms: 120_000 }
    }
    fn required_labels(&self) -> Vec<&'static str> {
        vec!["handshake_and_session_under_one_key", "challenged_by_second_server", "fell_back_after_challenge", "tampered_request", "tampered_request_while_pending", "limit_changed"]
    }
    fn enums(&self, _tier: Tier) -> Vec<(&'static str, u64)> {
        // datagram bits: sample set x (up to 1400*8 bit positions); truncations; token bits; cross-key
        vec![("datagram_bits_small", 12 * 400 * 8), ("datagram_bits_big", 2 * 1330 * 8), ("datagram_truncations", 12 * 1330), ("token_bits", 4 * TOKEN_BITS), ("cross_open", 64), ("protocol_bits", 12 * 64 * 2)]
    }
    fn run_enum(&self, name: &str, index: u64, ctx: &mut Ctx) -> Outcome {
        match name {
            "datagram_bits_small" | "datagram_bits_big" => {
                let big = name == "datagram_bits_big";
                let nw = sample_world(11, big)?;
                let samples: Vec<usize> = if big { sealed_samples(&nw).into_iter().filter(|&i| nw.pool[i].kind == 5).collect() } else { sealed_samples(&nw) };
                let per = if big { 1330 * 8 } else { 400 * 8 };
                let s = (index / per) as usize;
                let bit = (index % per) as usize;
                let Some(&i) = samples.get(s) else { return Ok(()) };
                if bit / 8 >= nw.pool[i].bytes.len() {
                    return Ok(());
                }
                ctx.op(&(name, nw.pool[i].kind, bit));
                self.tamper_datagram(&nw, i, Some(bit), None, ctx)
            }
            "datagram_truncations" => {
                let s = (index / 1330) as usize;
                let n = (index % 1330) as usize;
                let nw = sample_world(11, s % 2 == 1)?;
                let samples = sealed_samples(&nw);
                let Some(&i) = samples.get(s) else { return Ok(()) };
                if n >= nw.pool[i].bytes.len() {
                    return Ok(());
                }
                ctx.op(&(name, nw.pool[i].kind, n));
                self.tamper_datagram(&nw, i, None, Some(n), ctx)
            }
            "token_bits" => {
                let nw = sample_world(13, false)?;
                let t = nw.clients[1].token.clone();
                let k = key(1);
                if verif_open_private_token(&t.private_data, t.protocol_id, t.expire_timestamp, &t.xnonce, &k).is_err() {
                    return Err(Fail::new("sample_does_not_open", "sample token does not open under the server key"));
                }
                // server state the modified request meets: 0 unknown address, 1 genuine request already answered at this address
                // (handshake pending), 2 pending at another address, 3 session of this token connected at this address
                let state = index / TOKEN_BITS;
                let bit = (index % TOKEN_BITS) as usize;
                let (mut data, mut xn, mut proto, mut exp) = (t.private_data, t.xnonce, t.protocol_id, t.expire_timestamp);
                let what;
                if bit < 1024 * 8 {
                    data[bit / 8] ^= 1 << (bit % 8);
                    what = "sealed part";
                } else if bit < (1024 + 24) * 8 {
                    let b = bit - 1024 * 8;
                    xn[b / 8] ^= 1 << (b % 8);
                    what = "nonce";
                } else if bit < (1024 + 24 + 8) * 8 {
                    proto ^= 1 << (bit - (1024 + 24) * 8);
                    what = "protocol id";
                } else {
                    exp ^= 1 << (bit - (1024 + 24 + 8) * 8);
                    what = "expiry";
                }
                ctx.op(&(name, state, bit));
                ctx.nontrivial = true;
                if verif_open_private_token(&data, proto, exp, &xn, &k).is_ok() {
                    return Err(Fail::new("token_bit_flip_accepted", format!("token opens after flipping bit {bit} ({what})")));
                }
                // the server must not answer a request carrying the modified fields (protocol id is checked against the server's own)
                let req = NPacket::ConnectionRequest { version_info: *b"NETCODE 1.02\0", protocol_id: proto, expire_timestamp: exp, xnonce: xn, data };
                let mut buf = [0u8; 1400];
                let n = req.encode(&mut buf, PROTO, None).map_err(|e| Fail::new("encode", e.to_string()))?;
                let mut nw2 = NetWorld::new(17);
                nw2.servers.push(mk_server(0, 1, PROTO, 2, nw.now, true));
                if state > 0 {
                    let at = if state == 2 { client_addr(5) } else { client_addr(1) };
                    let c = nw2.add_client(t.clone(), at, 1);
                    let staged = if state == 3 { nw2.handshake(0, c, Duration::from_millis(20), 20) } else { matches!(nw2.honest_step(c, Duration::from_millis(20), false, false).out, SrvOut::Send { .. }) };
                    if !staged {
                        return Err(Fail::new("stage", format!("could not stage server state {state} for the modified request")));
                    }
                }
                let out = nw2.server_recv(0, client_addr(1), &buf[..n]);
                if out != SrvOut::None {
                    return Err(Fail::new("token_bit_flip_accepted", format!("server (state {state}) answered a request whose token has bit {bit} ({what}) flipped: {out:?}")));
                }
                Ok(())
            }
            "protocol_bits" => {
                // every sample datagram opened under a protocol id that differs in exactly one of its 64 bits
                let big = index % 2 == 1;
                let bit = (index / 2) % 64;
                let s = (index / 128) as usize;
                let nw = sample_world(11, big)?;
                let samples = sealed_samples(&nw);
                let Some(&i) = samples.get(s) else { return Ok(()) };
                let d = &nw.pool[i];
                let k = key_of(&nw, d).unwrap();
                ctx.op(&(name, d.kind, bit, big));
                ctx.nontrivial = true;
                if !opens(&d.bytes, PROTO, &k) {
                    return Err(Fail::new("sample_does_not_open", format!("sample datagram kind {} does not open under its own key", d.kind)));
                }
                if opens(&d.bytes, PROTO ^ (1u64 << bit), &k) {
                    return Err(Fail::new("opened_under_other_key", format!("datagram kind {} sealed for protocol id {PROTO:#x} opens under {:#x} (bit {bit} differs)", d.kind, PROTO ^ (1u64 << bit))));
                }
                Ok(())
            }
            _ => {
                // opening samples under other keys / protocol ids, tokens under other key / expiry
                let nw = sample_world(11 + index % 3, index % 2 == 0)?;
                let samples = sealed_samples(&nw);
                let i = samples[(index as usize / 4) % samples.len()];
                let d = &nw.pool[i];
                let k = key_of(&nw, d).unwrap();
                ctx.op(&(name, d.kind, index % 4));
                ctx.nontrivial = true;
                let (bad_proto, bad_key): (u64, [u8; 32]) = match index % 4 {
                    0 => (PROTO_OTHER, k),
                    1 => (PROTO ^ 1, k),
                    2 => (PROTO, nw.clients[1].token.client_to_server_key),
                    _ => (PROTO, if matches!(d.from, Emitter::Client(_)) { nw.clients[0].token.server_to_client_key } else { nw.clients[0].token.client_to_server_key }),
                };
                if bad_key == k && bad_proto == PROTO {
                    return Ok(());
                }
                if opens(&d.bytes, bad_proto, &bad_key) {
                    return Err(Fail::new("opened_under_other_key", format!("datagram kind {} opens under another key or protocol id (variant {})", d.kind, index % 4)));
                }
                let t = &nw.clients[0].token;
                if verif_open_private_token(&t.private_data, t.protocol_id, t.expire_timestamp, &t.xnonce, &key(2)).is_ok()
                    || verif_open_private_token(&t.private_data, PROTO_OTHER, t.expire_timestamp, &t.xnonce, &key(1)).is_ok()
                    || verif_open_private_token(&t.private_data, t.protocol_id, t.expire_timestamp + 1, &t.xnonce, &key(1)).is_ok()
                {
                    return Err(Fail::new("token_opened_under_other_key", "token opens under another key, protocol id or expiry"));
                }
                Ok(())
            }
        }
    }
    fn run_choices(&self, ctx: &mut Ctx) -> Outcome {
        self.history_case(ctx)
    }
}
