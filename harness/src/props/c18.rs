//! C18 Netcode liveness: handshakes complete, silent peers time out, live ones do not.

use crate::engine::*;
use crate::sim::net::*;
use renetcode::DisconnectReason as NReason;
use std::collections::VecDeque;
use std::net::SocketAddr;
use std::time::Duration;

pub struct C18;

struct Cl {
    /// token addresses: true = a live server listens there (always server 0), false = silent
    live_at: Vec<bool>,
    /// the first listed address belongs to a second server that answers the request with a challenge and is silent afterwards
    half_first: bool,
    half_answered: bool,
    timeout: i32,
    expire_ts: u64,
    /// the server reached its client limit at some point of this client's attempt
    saw_full: bool,
    /// its id or address was connected (by someone else) at some point of its attempt
    conflict: bool,
    /// time (server clock) of the last packet of this client the server accepted, while it holds the session
    srv_last: Option<Duration>,
    /// client clock at the last packet it accepted from the server (connected only)
    cli_last: Option<Duration>,
    cli_now: Duration,
    /// the server held this client's session at some point
    ever_held: bool,
    /// remaining ticks of total silence in both directions
    silence: u32,
    /// datagrams travelling to the server / to the client: (pool id, due tick)
    up: VecDeque<(usize, u64)>,
    down: VecDeque<(usize, u64)>,
    accepted_up: Vec<usize>,
    accepted_down: Vec<usize>,
}

#[derive(Debug, Hash)]
enum Op {
    Tick { ms: u64 },
    Spawn { client: usize, addrs: Vec<bool>, timeout: i32 },
    Silence { client: usize, ticks: u32 },
    SetLimit { to: usize },
    Forge { client: usize, to_server: bool, how: &'static str },
    Quit { client: usize },
}

struct W {
    nw: NetWorld,
    cl: Vec<Cl>,
    limit: usize,
    tick: u64,
    streaming: bool,
    faults: bool,
}

fn silent_addr(i: usize) -> SocketAddr {
    // away from the servers' own addresses (i and i + 20); every other one is a dead sibling process on the live server's own host
    // (same ip, another port)
    if i % 2 == 1 {
        SocketAddr::new(server_addr(0).ip(), 5001 + i as u16)
    } else {
        server_addr(100 + i)
    }
}

impl W {
    fn timed_out(last: Option<Duration>, now: Duration, timeout: i32) -> bool {
        match last {
            Some(l) if timeout > 0 => now > l + Duration::from_secs(timeout as u64),
            _ => false,
        }
    }

    /// After every operation: capacity / conflict flags of the attempts in progress.
    fn flags(&mut self) {
        let s = &self.nw.servers[0].server;
        let full = s.connected_clients() >= self.limit;
        for (i, c) in self.cl.iter_mut().enumerate() {
            if self.nw.clients[i].client.is_connecting() {
                if full {
                    c.saw_full = true;
                }
                let id = self.nw.clients[i].client_id;
                let addr = self.nw.clients[i].addr;
                let held_by_me = s.client_addr(id) == Some(addr);
                if !held_by_me && (s.is_client_connected(id) || s.clients_id().iter().any(|o| s.client_addr(*o) == Some(addr))) {
                    c.conflict = true;
                }
            }
        }
    }

    /// The server gives up a session only through a reported event (ClientDisconnected from a disconnect packet or from
    /// update_client): a session the history knows as held, with no such event since, is still in the table under its id and address.
    fn held_sessions_present(&self) -> Outcome {
        let s = &self.nw.servers[0].server;
        for (i, c) in self.cl.iter().enumerate() {
            let id = self.nw.clients[i].client_id;
            if c.srv_last.is_some() && s.client_addr(id) != Some(self.nw.clients[i].addr) {
                return Err(Fail::new(
                    "session_vanished_without_event",
                    format!("the server no longer holds the session of client {i} (id {id}) although it reported neither a disconnect packet nor a timeout for it; connected ids: {:?}", s.clients_id()),
                ));
            }
        }
        Ok(())
    }

    /// A datagram from client c reaches the server.
    fn to_server(&mut self, ctx: &mut Ctx, c: usize, did: usize) -> Outcome {
        let d = self.nw.pool[did].clone();
        if d.to == server_addr(1) {
            // the second server answers a request with a challenge, then nothing more is heard of it
            if d.kind == 0 && !self.cl[c].half_answered {
                if let SrvOut::Send { did: r, .. } = self.nw.server_recv(1, d.src, &d.bytes) {
                    self.cl[c].half_answered = true;
                    self.enqueue_down(ctx, c, r);
                }
            }
            return Ok(());
        }
        if d.to != server_addr(0) {
            return Ok(()); // silent address: nobody listens
        }
        let id = self.nw.clients[c].client_id;
        let held = self.nw.servers[0].server.client_addr(id) == Some(d.src);
        // the capacity this datagram meets: a server that is full at this moment may be less than full again by the end of the tick
        // (another client's disconnect packet arrives later in the same tick), so the end-of-tick flags alone would miss it
        if self.nw.clients[c].client.is_connecting() && self.nw.servers[0].server.connected_clients() >= self.limit {
            self.cl[c].saw_full = true;
        }
        self.nw.pool[did].presented += 1;
        let first = self.nw.pool[did].presented == 1;
        let out = self.nw.server_recv(0, d.src, &d.bytes);
        let now = self.nw.now;
        match &out {
            SrvOut::Connected { client_id, .. } => {
                if *client_id == id {
                    self.cl[c].srv_last = Some(now);
                    self.cl[c].ever_held = true;
                    ctx.label("server_connected");
                }
            }
            SrvOut::Disconnected { client_id, .. } => {
                if *client_id == id {
                    self.cl[c].srv_last = None;
                }
            }
            _ => {}
        }
        // an authentic, fresh keep-alive / payload of the held session refreshes the server-side timer
        if held && first && matches!(d.kind, 4 | 5) && self.cl[c].srv_last.is_some() {
            self.cl[c].srv_last = Some(now);
            self.cl[c].accepted_up.push(did);
        }
        // replies travel back
        if let SrvOut::Send { did: r, .. } | SrvOut::Connected { did: r, .. } = &out {
            if self.nw.pool[*r].kind == 1 {
                // a denial: only legitimate when the server was full or the id/address was taken during this attempt
                let cl = &self.cl[c];
                if !cl.saw_full && !cl.conflict && self.nw.servers[0].server.connected_clients() < self.limit {
                    return Err(Fail::new(
                        "denied_with_free_capacity",
                        format!(
                            "client {c} was denied although {} clients are connected and the current limit is {} (limit at construction {})",
                            self.nw.servers[0].server.connected_clients(),
                            self.limit,
                            self.nw.servers[0].max_clients
                        ),
                    ));
                }
            }
            self.enqueue_down(ctx, c, *r);
        }
        Ok(())
    }

    fn lossy(&mut self, ctx: &mut Ctx, c: usize) -> Option<u64> {
        // returns the delay in ticks, or None when lost
        if self.cl[c].silence > 0 {
            return None;
        }
        if !self.faults {
            return Some(0);
        }
        match ctx.src.weighted(&[170, 60, 26]) {
            0 => Some(0),
            1 => {
                ctx.label("lost");
                None
            }
            _ => Some(1 + ctx.src.below(3) as u64),
        }
    }

    fn enqueue_down(&mut self, ctx: &mut Ctx, c: usize, did: usize) {
        let kind = self.nw.pool[did].kind;
        match self.lossy(ctx, c) {
            Some(delay) => {
                let due = self.tick + delay;
                self.cl[c].down.push_back((did, due));
                if self.faults && ctx.src.chance(20) {
                    self.cl[c].down.push_back((did, due + 1));
                }
            }
            None => {
                ctx.label(match kind {
                    2 => "lost_challenge",
                    4 => "lost_keepalive",
                    _ => "lost_other_down",
                });
            }
        }
    }

    fn enqueue_up(&mut self, ctx: &mut Ctx, c: usize, did: usize) {
        let kind = self.nw.pool[did].kind;
        match self.lossy(ctx, c) {
            Some(delay) => {
                let due = self.tick + delay;
                self.cl[c].up.push_back((did, due));
            }
            None => {
                ctx.label(match kind {
                    0 => "lost_request",
                    3 => "lost_response",
                    _ => "lost_other_up",
                });
            }
        }
    }

    fn tick(&mut self, ctx: &mut Ctx, dt: Duration) -> Outcome {
        self.tick += 1;
        self.nw.now += dt;
        let now = self.nw.now;
        // 1. server: clock, per-client update (timeouts, keep-alives)
        let before: Vec<u64> = self.nw.servers[0].server.clients_id();
        let outs = self.nw.server_tick(0, dt);
        for o in outs {
            match o {
                SrvOut::Disconnected { client_id, addr, did } => {
                    let Some(c) = (0..self.cl.len()).find(|&i| self.nw.clients[i].client_id == client_id && self.nw.clients[i].addr == addr && self.cl[i].srv_last.is_some()) else {
                        return Err(Fail::new("timeout_unknown_session", format!("update_client disconnected id {client_id} which the history does not know as connected")));
                    };
                    if !W::timed_out(self.cl[c].srv_last, now, self.cl[c].timeout) {
                        return Err(Fail::new(
                            "server_timed_out_live_client",
                            format!("server timed out client {c} at {:?} although its last accepted packet arrived at {:?} (timeout {} s)", now, self.cl[c].srv_last, self.cl[c].timeout),
                        ));
                    }
                    ctx.label("server_timeout");
                    self.cl[c].srv_last = None;
                    if let Some(did) = did {
                        self.enqueue_down(ctx, c, did);
                    }
                }
                SrvOut::Send { to, did } => {
                    if let Some(c) = (0..self.cl.len()).find(|&i| self.nw.clients[i].addr == to) {
                        self.enqueue_down(ctx, c, did);
                    }
                }
                _ => {}
            }
        }
        // every session the server still holds must not be overdue
        for id in before {
            if self.nw.servers[0].server.is_client_connected(id) {
                if let Some(c) = (0..self.cl.len()).find(|&i| self.nw.clients[i].client_id == id && self.cl[i].srv_last.is_some()) {
                    if W::timed_out(self.cl[c].srv_last, now, self.cl[c].timeout) {
                        return Err(Fail::new(
                            "server_did_not_time_out",
                            format!("server still holds client {c} at {:?}: no authentic fresh packet since {:?}, timeout {} s", now, self.cl[c].srv_last, self.cl[c].timeout),
                        ));
                    }
                }
            }
        }
        // half-open sessions vanish when their token expires
        let pend = self.nw.servers[0].server.verif_pending_addrs();
        for a in pend {
            if let Some(c) = (0..self.cl.len()).find(|&i| self.nw.clients[i].addr == a) {
                if now.as_secs() > self.cl[c].expire_ts {
                    return Err(Fail::new("pending_outlives_token", format!("the half-open session of {a} still exists at second {} although its token expired at {}", now.as_secs(), self.cl[c].expire_ts)));
                }
            }
        }
        // 2. the server application streams a payload to every connected client
        if self.streaming {
            for c in 0..self.cl.len() {
                let id = self.nw.clients[c].client_id;
                if self.cl[c].srv_last.is_some() && self.nw.servers[0].server.client_addr(id) == Some(self.nw.clients[c].addr) {
                    if let Ok(did) = self.nw.server_payload(0, id, &[1, 2, 3, 4]) {
                        self.enqueue_down(ctx, c, did);
                    }
                }
            }
        }
        // 3. clients: deliveries due, then update
        for c in 0..self.cl.len() {
            if self.cl[c].silence > 0 {
                self.cl[c].silence -= 1;
                self.cl[c].down.clear();
                self.cl[c].up.clear();
            }
            // datagrams from the server due now, in order
            let mut due = vec![];
            let t = self.tick;
            self.cl[c].down.retain(|(d, when)| {
                if *when <= t {
                    due.push(*d);
                    false
                } else {
                    true
                }
            });
            for did in due {
                let d = self.nw.pool[did].clone();
                if self.nw.clients[c].client.server_addr() != d.src {
                    continue; // the transport drops datagrams from other addresses
                }
                let was_connected = self.nw.clients[c].client.is_connected();
                self.nw.pool[did].presented += 1;
                let first = self.nw.pool[did].presented == 1;
                self.nw.client_recv(c, &d.bytes);
                let is_connected = self.nw.clients[c].client.is_connected();
                if is_connected && first && matches!(d.kind, 4 | 5) {
                    self.cl[c].cli_last = Some(self.cl[c].cli_now);
                    self.cl[c].accepted_down.push(did);
                }
                if !was_connected && is_connected {
                    ctx.label("client_connected");
                }
                if was_connected && !is_connected {
                    self.cl[c].cli_last = None;
                }
            }
            // client update
            let was_connected = self.nw.clients[c].client.is_connected();
            self.cl[c].cli_now += dt;
            let sent = self.nw.client_update(c, dt);
            let st = &self.nw.clients[c].client;
            if was_connected {
                let must = W::timed_out(self.cl[c].cli_last, self.cl[c].cli_now, self.cl[c].timeout);
                match (must, st.is_connected(), st.disconnect_reason()) {
                    (true, true, _) => {
                        return Err(Fail::new(
                            "client_did_not_time_out",
                            format!("client {c} still connected at {:?}: no authentic fresh packet since {:?}, timeout {} s", self.cl[c].cli_now, self.cl[c].cli_last, self.cl[c].timeout),
                        ))
                    }
                    (false, false, r) => {
                        return Err(Fail::new(
                            "client_timed_out_live_server",
                            format!("client {c} left the connected state ({r:?}) at {:?} although its last accepted packet arrived at {:?} (timeout {} s)", self.cl[c].cli_now, self.cl[c].cli_last, self.cl[c].timeout),
                        ))
                    }
                    (true, false, Some(NReason::ConnectionTimedOut)) => {
                        ctx.label("client_timeout");
                        self.cl[c].cli_last = None;
                    }
                    (true, false, r) => return Err(Fail::new("client_timeout_reason", format!("client {c} timed out with reason {r:?}"))),
                    _ => {}
                }
            }
            if let Some(did) = sent {
                self.enqueue_up(ctx, c, did);
            }
            // in streaming cases the client application, too, submits a payload every tick without looking at the connection state,
            // as the UDP transport does with whatever the message layer has queued: a client that is not connected refuses
            // (ClientNotConnected) and nothing leaves; whatever does leave travels like any other datagram
            if self.streaming && self.nw.clients[c].client.is_connecting() {
                if let Ok(did) = self.nw.client_payload(c, &[9, 9, 9]) {
                    self.enqueue_up(ctx, c, did);
                    ctx.label("payload_from_connecting_client");
                }
            }
            // datagrams to the server due now
            let mut due = vec![];
            self.cl[c].up.retain(|(d, when)| {
                if *when <= t {
                    due.push(*d);
                    false
                } else {
                    true
                }
            });
            for did in due {
                self.to_server(ctx, c, did)?;
            }
        }
        self.flags();
        self.held_sessions_present()
    }
}

impl Property for C18 {
    fn id(&self) -> &'static str {
        "C18"
    }
    fn level(&self) -> &'static str {
        "fault_enumeration"
    }
    fn rule(&self) -> String {
        "A case = secure server with a client limit of 1-3 at construction, raised or lowered at run time in some cases; 1-4 honest clients on distinct addresses spawned at any time, token timeouts 1-15 s or disabled, 1-3 server addresses of which a prefix is silent (the first of them, in some cases, a second server that answers the request with a challenge and is never heard of again); ticks of 10 ms - 1 s around the 250 ms send rate; per-datagram loss / delay by 1-3 ticks / duplication in both directions during and after the handshake, whole-silence periods per client, the server application streaming a payload to every connected client each tick in some cases (the client application then submits one per tick as well, whatever state its client is in), forged and replayed datagrams presented to both sides during silences, among them the replies of the handshake phase (denied, challenge) the server once addressed to a client, presented again once that client is connected; connected clients leave by their own disconnect packet (which travels, and may be lost, like any other datagram) while up to three other sessions go on - a session the server reported neither a disconnect packet nor a timeout for is still in its table; every other silent address is a dead port on the answering server's own ip. A model keeps, per side, the time of the last authentic and fresh packet accepted (genuine datagram delivered for the first time to the endpoint holding that session). Oracles at every update: a peer whose last accepted packet is older than its timeout is reported disconnected by that update (server: ClientDisconnected; client: ConnectionTimedOut), one whose accepted packets are not further apart is not; half-open sessions are gone after their token's expiry second; a denial only happens when the server was full or the id/address was taken during that attempt. Enumerated besides the histories: every address-list length 1-32 with every position of the single answering address (or none), four timeout / tick combinations, delivered at once, with the first datagram to the answering server lost, or with one tick of latency each way - the client must walk the list, connect at the answering address or end disconnected when the list is exhausted, within (timeout/tick + 3) updates per address. After faults stop: every client still connecting whose attempt never met a full server or a taken id/address, with an unexpired token and timeouts enabled when addresses are silent, is connected on both sides within sum(timeouts of the remaining silent addresses) + 8*max(250 ms, tick) + 1 s. Every session that is established on both sides and fresh (last accepted packet on both sides more than 1 s + 2 ticks younger than the timeout) when the faults stop is still established after timeout + 1.5 s of fault-free ticks. Non-trivial: a handshake datagram of at least two of the four kinds was lost, or a silent first address, a raised limit, or a forged packet during a silence occurred, and the heal obligation was evaluated. Distinct = hash of the decoded operation trace.".into()
    }
    fn assumptions(&self) -> Vec<String> {
        vec![
            "client and server are updated with the same durations".into(),
            "post-handshake datagrams are delivered in generation order (loss, delay and duplication allowed), so 'fresh' = first delivery".into(),
            "one address per client object; tokens are not re-used".into(),
        ]
    }
    fn pbt(&self, tier: Tier) -> PbtCfg {
        PbtCfg { cases: tier.pick(200_000, 4_000_000), max_len: tier.pick(500, 1600), shrink_ms: 120_000 }
    }
    fn required_labels(&self) -> Vec<&'static str> {
        vec!["lost_request", "lost_challenge", "lost_response", "lost_keepalive", "silent_first_address", "limit_raised", "limit_lowered", "forged_in_silence", "server_timeout", "client_timeout", "heal_obligation", "streaming", "timeouts_disabled", "challenge_then_silent_address", "address_list_walked", "address_list_exhausted", "stale_handshake_reply", "stale_denied_at_connected_client", "survivor_obligation", "client_quit", "client_quit_among_three"]
    }
    fn enums(&self, _tier: Tier) -> Vec<(&'static str, u64)> {
        // every address-list length 1..=32 x every position of the one answering address (or none) x 4 timeout / tick combinations
        vec![("address_lists", 32 * 33 * 4 * 3)]
    }
    fn run_enum(&self, name: &str, index: u64, ctx: &mut Ctx) -> Outcome {
        let v = (index % 4) as usize;
        // delivery: 0 = at once; 1 = the first datagram that reaches the answering server is lost; 2 = every datagram takes one tick
        // (each way), only where a round trip still fits into the timeout
        let mode = ((index / 4) % 3) as usize;
        let p = ((index / 12) % 33) as usize;
        let n = 1 + (index / 12 / 33) as usize;
        if n > 32 || p > n {
            return Ok(());
        }
        // ticks stay shorter than the timeout (a peer updated less often than its timeout cannot hold any session)
        let (timeout, dt_ms) = [(1i32, 300u64), (2, 1100), (2, 700), (3, 2600)][v];
        // a lost or delayed datagram costs one more tick: only where two ticks still fit into the timeout
        if mode != 0 && 2 * dt_ms >= timeout as u64 * 1000 {
            return Ok(());
        }
        ctx.op(&(name, n, p, timeout, dt_ms, mode));
        let mut nw = NetWorld::new(7 + index);
        nw.servers.push(mk_server(0, 1, PROTO, 2, nw.now, true));
        // position p answers (p == n: nobody does)
        // the answering server is listed under its first or its second public address
        let live = if (n + p) % 2 == 0 { server_addr(0) } else { server_alt_addr(0) };
        let addrs: Vec<SocketAddr> = (0..n).map(|k| if k == p { live } else { silent_addr(k) }).collect();
        let t = nw.mint(&TokenSpec { client_id: 800, user: 1, expire_seconds: 600, timeout, addrs, key: key(1), protocol: PROTO });
        nw.add_client(t, client_addr(0), 1);
        let dt = Duration::from_millis(dt_ms);
        let per_addr = (timeout as u64 * 1000).div_ceil(dt_ms) + 3;
        let bound = n as u64 * per_addr + 20;
        let mut first_lost = false;
        // datagrams in flight for one tick (mode 2): towards the server / towards the client
        let mut up: Option<(SocketAddr, Vec<u8>)> = None;
        let mut down: Vec<Vec<u8>> = vec![];
        for step in 0..bound {
            nw.now += dt;
            let mut replies: Vec<Vec<u8>> = vec![];
            for o in nw.server_tick(0, dt) {
                if let SrvOut::Send { did, .. } | SrvOut::Disconnected { did: Some(did), .. } = o {
                    replies.push(nw.pool[did].bytes.clone());
                }
            }
            if mode == 2 {
                // what was sent one tick ago arrives now
                for b in std::mem::take(&mut down) {
                    if nw.clients[0].client.server_addr() == live {
                        nw.client_recv(0, &b);
                    }
                }
                if let Some((from, b)) = up.take() {
                    if let SrvOut::Send { did, .. } | SrvOut::Connected { did, .. } = nw.server_recv(0, from, &b) {
                        replies.push(nw.pool[did].bytes.clone());
                    }
                }
                down = replies;
                if let Some(did) = nw.client_update(0, dt) {
                    let d = nw.pool[did].clone();
                    if d.to == live {
                        up = Some((d.src, d.bytes));
                    }
                }
            } else {
                for b in replies {
                    if nw.clients[0].client.server_addr() == live {
                        nw.client_recv(0, &b);
                    }
                }
                let lose = mode == 1 && !first_lost && nw.clients[0].client.server_addr() == live;
                if lose {
                    first_lost = true;
                    ctx.label("first_request_lost");
                }
                nw.honest_step(0, dt, lose, false);
            }
            let client = &nw.clients[0].client;
            if client.is_connected() && nw.servers[0].server.client_addr(800) == Some(client_addr(0)) {
                if p == n {
                    return Err(Fail::new("connected_without_server", "client reports connected although no listed address answers"));
                }
                ctx.nontrivial = p > 0;
                ctx.label("address_list_walked");
                return Ok(());
            }
            if client.is_disconnected() {
                if p < n {
                    return Err(Fail::new(
                        "gave_up_before_live_address",
                        format!("{n} addresses, #{p} answers, timeout {timeout} s, tick {dt_ms} ms: client gave up ({:?}) after {step} updates without reaching it", client.disconnect_reason()),
                    ));
                }
                ctx.nontrivial = true;
                ctx.label("address_list_exhausted");
                return Ok(());
            }
        }
        Err(Fail::new(
            "address_list_not_walked",
            format!("{n} addresses, #{p} answers (== {n}: none), timeout {timeout} s, tick {dt_ms} ms: after {bound} updates the client is neither connected nor disconnected (talking to {})", nw.clients[0].client.server_addr()),
        ))
    }
    fn run_choices(&self, ctx: &mut Ctx) -> Outcome {
        let seed16 = ctx.src.u16() as u64;
        let idb = id_base(seed16);
        let mut nw = NetWorld::new(seed16);
        let limit = 1 + ctx.src.below(3);
        // a tenth of the cases run the servers in the Unsecure development mode (tokens sealed with the all-zero key)
        let unsecure = ctx.src.chance(25);
        if unsecure {
            ctx.label("unsecure_server");
        }
        let token_key = if unsecure { [0u8; 32] } else { key(1) };
        nw.servers.push(mk_server(0, 1, PROTO, limit, nw.now, !unsecure));
        nw.servers.push(mk_server(1, 1, PROTO, 8, nw.now, !unsecure));
        let streaming = ctx.src.chance(110);
        if streaming {
            ctx.label("streaming");
        }
        let mut w = W { nw, cl: vec![], limit, tick: 0, streaming, faults: true };
        ctx.op(&(limit, streaming));
        let max_ops = ctx.tier.pick(120, 400);
        let mut ops = 0;
        let mut last_dt = 100u64;
        let spawn = |w: &mut W, ctx: &mut Ctx| -> Op {
            let i = w.cl.len();
            let timeout = ctx.src.pick(&[5i32, 1, 2, 3, 15, -1]);
            let n_silent = match ctx.src.weighted(&[10, 4, 2]) {
                0 => 0,
                1 => 1,
                _ => 2,
            };
            let mut live_at = vec![false; n_silent];
            live_at.push(true);
            let half_first = n_silent > 0 && ctx.src.chance(110);
            let addrs: Vec<SocketAddr> = live_at.iter().enumerate().map(|(k, l)| if *l { server_addr(0) } else if k == 0 && half_first { server_addr(1) } else { silent_addr(k) }).collect();
            if half_first {
                ctx.label("challenge_then_silent_address");
            }
            let expire = ctx.src.pick(&[600u64, 600, 8, 20]);
            let t = w.nw.mint(&TokenSpec { client_id: idb + 700 + i as u64, user: i as u64, expire_seconds: expire, timeout, addrs, key: token_key, protocol: PROTO });
            let expire_ts = w.nw.now.as_secs() + expire;
            w.nw.add_client(t, client_addr(i), i as u64);
            if n_silent > 0 {
                ctx.label("silent_first_address");
            }
            if timeout < 0 {
                ctx.label("timeouts_disabled");
            }
            w.cl.push(Cl { live_at: live_at.clone(), half_first, half_answered: false, timeout, expire_ts, saw_full: false, conflict: false, srv_last: None, cli_last: None, cli_now: w.nw.now, ever_held: false, silence: 0, up: VecDeque::new(), down: VecDeque::new(), accepted_up: vec![], accepted_down: vec![] });
            Op::Spawn { client: i, addrs: live_at, timeout }
        };
        let first = spawn(&mut w, ctx);
        ctx.op(&first);
        w.flags();
        while !ctx.src.exhausted() && ops < max_ops {
            ops += 1;
            let op = match ctx.src.weighted(&[60, 5, 6, 4, 8, 3]) {
                0 => {
                    let ms = ctx.src.pick(&[100u64, 10, 50, 249, 250, 251, 500, 1000]);
                    last_dt = ms;
                    w.tick(ctx, Duration::from_millis(ms))?;
                    Op::Tick { ms }
                }
                1 => {
                    if w.cl.len() < 4 {
                        let o = spawn(&mut w, ctx);
                        w.flags();
                        o
                    } else {
                        continue;
                    }
                }
                2 => {
                    let c = ctx.src.below(w.cl.len());
                    let ticks = 1 + ctx.src.below(40) as u32;
                    w.cl[c].silence = ticks;
                    Op::Silence { client: c, ticks }
                }
                3 => {
                    let to = 1 + ctx.src.below(4);
                    if to > w.limit {
                        ctx.label("limit_raised");
                    } else if to < w.limit {
                        ctx.label("limit_lowered");
                    }
                    w.nw.servers[0].server.set_max_clients(to);
                    w.limit = to;
                    w.flags();
                    Op::SetLimit { to }
                }
                5 => {
                    // the application of a connected client leaves: its disconnect datagram travels like any other (when it is lost the
                    // server runs into the timeout); the sessions of the other clients, in whichever slots they sit, are not touched
                    let c = ctx.src.below(w.cl.len());
                    if !w.nw.clients[c].client.is_connected() {
                        continue;
                    }
                    if let Some(did) = w.nw.client_disconnect(c) {
                        w.enqueue_up(ctx, c, did);
                    }
                    w.cl[c].cli_last = None;
                    ctx.label("client_quit");
                    if w.cl.iter().filter(|o| o.srv_last.is_some()).count() >= 3 {
                        ctx.label("client_quit_among_three");
                    }
                    Op::Quit { client: c }
                }
                _ => {
                    // forged or replayed datagrams: they must not postpone any timeout (the model ignores them)
                    let c = ctx.src.below(w.cl.len());
                    let to_server = ctx.src.chance(128);
                    let how;
                    let pool_ids: Vec<usize> = if to_server { w.cl[c].accepted_up.clone() } else { w.cl[c].accepted_down.clone() };
                    let own_req: Option<usize> = w.nw.clients[c].sent.iter().copied().find(|&d| w.nw.pool[d].kind == 0);
                    let own_resp: Option<usize> = w.nw.clients[c].sent.iter().copied().find(|&d| w.nw.pool[d].kind == 3);
                    // replies of the handshake phase (denied, challenge) the server once addressed to this client, arriving late or again
                    // at the connected client: an established session ignores them
                    let stale: Vec<usize> = if !to_server && w.nw.clients[c].client.is_connected() {
                        let a = w.nw.clients[c].addr;
                        w.nw.pool.iter().enumerate().filter(|(_, d)| d.to == a && matches!(d.from, Emitter::Server(_)) && matches!(d.kind, 1 | 2)).map(|(i, _)| i).collect()
                    } else {
                        vec![]
                    };
                    let bytes: Option<Vec<u8>> = match ctx.src.below(6) {
                        4 if !stale.is_empty() => {
                            how = "stale_handshake_reply";
                            ctx.label("stale_handshake_reply");
                            if stale.iter().any(|&i| w.nw.pool[i].kind == 1) {
                                ctx.label("stale_denied_at_connected_client");
                            }
                            Some(w.nw.pool[stale[ctx.src.below(stale.len())]].bytes.clone())
                        }
                        0 if !pool_ids.is_empty() => {
                            how = "replay_accepted";
                            Some(w.nw.pool[pool_ids[ctx.src.below(pool_ids.len())]].bytes.clone())
                        }
                        1 if !pool_ids.is_empty() => {
                            how = "mutated";
                            let pick = pool_ids[ctx.src.below(pool_ids.len())];
                            let (b, _) = mutate(&mut ctx.src, &w.nw.pool[pick].bytes);
                            Some(b)
                        }
                        2 if to_server && own_req.is_some() && w.cl[c].srv_last.is_some() => {
                            how = "own_request_replayed";
                            Some(w.nw.pool[own_req.unwrap()].bytes.clone())
                        }
                        3 if to_server && own_resp.is_some() && w.cl[c].srv_last.is_some() => {
                            how = "own_response_replayed";
                            Some(w.nw.pool[own_resp.unwrap()].bytes.clone())
                        }
                        _ => {
                            how = "garbage";
                            let n = ctx.src.pick(&[18usize, 40, 1062, 1078]);
                            let mut b = vec![0u8; n];
                            fill_stream(ctx.src.u16() as u64, &mut b);
                            b[0] = ctx.src.pick(&[0u8, 0x14, 0x15, 0x16, 0x13]);
                            Some(b)
                        }
                    };
                    if let Some(b) = bytes {
                        if w.cl[c].silence > 0 {
                            ctx.label("forged_in_silence");
                        }
                        if to_server {
                            let held_before = w.cl[c].srv_last.is_some();
                            let out = w.nw.server_recv(0, w.nw.clients[c].addr, &b);
                            if held_before && matches!(out, SrvOut::Disconnected { .. } | SrvOut::Payload { .. }) && how != "replay_accepted" {
                                return Err(Fail::new("forged_accepted", format!("a forged datagram ({how}) produced {out:?}")));
                            }
                            if matches!(out, SrvOut::Disconnected { .. } | SrvOut::Payload { .. }) {
                                return Err(Fail::new("forged_accepted", format!("a replayed or forged datagram ({how}) produced {out:?}")));
                            }
                        } else {
                            let was = w.nw.clients[c].client.is_connected();
                            let p = w.nw.client_recv(c, &b);
                            if p.is_some() || was != w.nw.clients[c].client.is_connected() {
                                return Err(Fail::new("forged_accepted", format!("a replayed or forged datagram ({how}) changed client {c} or surfaced a payload")));
                            }
                        }
                    }
                    Op::Forge { client: c, to_server, how }
                }
            };
            ctx.op(&op);
        }
        // ---- heal: faults stop ----------------------------------------------------------------
        w.faults = false;
        for c in w.cl.iter_mut() {
            c.silence = 0;
        }
        let tick_ms = ctx.src.pick(&[100u64, 250, 50, 500]).max(1);
        let _ = last_dt;
        let now_s = w.nw.now.as_secs();
        // obligations
        let mut obligations: Vec<(usize, u64)> = vec![];
        for c in 0..w.cl.len() {
            let cl = &w.cl[c];
            let client = &w.nw.clients[c].client;
            if !client.is_connecting() || cl.saw_full || cl.conflict {
                continue;
            }
            // the server opened this client's session and ended it again (timeout) while the confirmation was lost:
            // by the protocol the client only recovers through its own timeout
            if cl.ever_held && cl.srv_last.is_none() {
                continue;
            }
            // remaining silent addresses before the live one, from the address the client currently talks to
            let cur = client.server_addr();
            let idx = (0..cl.live_at.len()).find(|&k| (if cl.live_at[k] { server_addr(0) } else if k == 0 && cl.half_first { server_addr(1) } else { silent_addr(k) }) == cur).unwrap_or(0);
            let silent_left = cl.live_at[idx..].iter().take_while(|l| !**l).count() as u64;
            if silent_left > 0 && cl.timeout <= 0 {
                continue; // timeouts disabled: a silent address is never given up
            }
            let bound_ms = silent_left * (cl.timeout.max(0) as u64 * 1000 + 2 * tick_ms) + 8 * tick_ms.max(250) + 1000;
            // the token must stay valid over the whole horizon (per address the client allows expire - create seconds)
            let life = cl.expire_ts.saturating_sub(now_s);
            if life * 1000 <= bound_ms + 2000 {
                continue;
            }
            // during the fault phase the client may be about to time out on its current address; that only moves it on when
            // another address exists; a single live address + imminent timeout ends the attempt legitimately
            if cl.timeout > 0 && silent_left == 0 {
                let since = client.time_since_last_received_packet();
                if since + Duration::from_millis(bound_ms) >= Duration::from_secs(cl.timeout as u64) {
                    continue;
                }
            }
            // a session the server already holds must not be about to time out before the client can confirm it
            if let (Some(l), true) = (cl.srv_last, cl.timeout > 0) {
                if (w.nw.now - l) + Duration::from_millis(bound_ms) >= Duration::from_secs(cl.timeout as u64) {
                    continue;
                }
            }
            obligations.push((c, bound_ms));
        }
        if !obligations.is_empty() {
            ctx.label("heal_obligation");
        }
        // sessions that are established on both sides and fresh when the faults stop must survive the heal phase: both ends keep being
        // updated and the network delivers, so authentic packets (keep-alives, if nothing else) have to keep arriving within every
        // timeout period - at every session, whichever slot it sits in and whatever the client limit is by now
        let mut survivors: Vec<usize> = vec![];
        for c in 0..w.cl.len() {
            let cl = &w.cl[c];
            let id = w.nw.clients[c].client_id;
            let both = w.nw.clients[c].client.is_connected() && w.nw.servers[0].server.client_addr(id) == Some(w.nw.clients[c].addr);
            if !both || cl.timeout <= 0 {
                continue;
            }
            let margin = Duration::from_millis(1000 + 2 * tick_ms);
            let limit = Duration::from_secs(cl.timeout as u64);
            let fresh_srv = cl.srv_last.map(|l| (w.nw.now - l) + margin < limit).unwrap_or(false);
            let fresh_cli = cl.cli_last.map(|l| (cl.cli_now - l) + margin < limit).unwrap_or(false);
            if fresh_srv && fresh_cli {
                survivors.push(c);
            }
        }
        if !survivors.is_empty() {
            ctx.label("survivor_obligation");
        }
        let survive_ms = survivors.iter().map(|&c| w.cl[c].timeout as u64 * 1000 + 1500).max().unwrap_or(0);
        let horizon = obligations.iter().map(|o| o.1).max().unwrap_or(2000).max(2000).max(survive_ms);
        let mut elapsed = 0u64;
        let mut done: Vec<bool> = vec![false; obligations.len()];
        while elapsed < horizon + tick_ms {
            w.tick(ctx, Duration::from_millis(tick_ms))?;
            elapsed += tick_ms;
            for (k, (c, bound)) in obligations.iter().enumerate() {
                if done[k] {
                    continue;
                }
                let id = w.nw.clients[*c].client_id;
                let both = w.nw.clients[*c].client.is_connected() && w.nw.servers[0].server.client_addr(id) == Some(w.nw.clients[*c].addr);
                if both {
                    done[k] = true;
                } else if w.cl[*c].saw_full || w.cl[*c].conflict {
                    done[k] = true; // the server filled up meanwhile: obligation ends
                } else if elapsed >= *bound {
                    let client = &w.nw.clients[*c].client;
                    return Err(Fail::new(
                        "handshake_not_completed",
                        format!(
                            "client {c} (timeout {} s, addresses live={:?}) is not connected on both sides {elapsed} ms after the network healed (bound {bound} ms): client connected={} connecting={} reason={:?}, server holds session={}, connected clients {} of limit {}, streaming={}",
                            w.cl[*c].timeout,
                            w.cl[*c].live_at,
                            client.is_connected(),
                            client.is_connecting(),
                            client.disconnect_reason(),
                            w.nw.servers[0].server.client_addr(id) == Some(w.nw.clients[*c].addr),
                            w.nw.servers[0].server.connected_clients(),
                            w.limit,
                            w.streaming
                        ),
                    ));
                }
            }
        }
        for &c in survivors.iter() {
            let id = w.nw.clients[c].client_id;
            let client = &w.nw.clients[c].client;
            let held = w.nw.servers[0].server.client_addr(id) == Some(w.nw.clients[c].addr);
            if !client.is_connected() || !held {
                return Err(Fail::new(
                    "established_session_lost",
                    format!(
                        "client {c} (timeout {} s) was connected on both sides and fresh when the faults stopped; after {elapsed} ms of fault-free ticks of {tick_ms} ms: client connected={} reason={:?}, server holds session={}, connected clients {} of limit {}",
                        w.cl[c].timeout,
                        client.is_connected(),
                        client.disconnect_reason(),
                        held,
                        w.nw.servers[0].server.connected_clients(),
                        w.limit
                    ),
                ));
            }
        }
        let lost_kinds = ["lost_request", "lost_challenge", "lost_response", "lost_keepalive"].iter().filter(|l| ctx.has(l)).count();
        if (lost_kinds >= 2 || ctx.has("silent_first_address") || ctx.has("limit_raised") || ctx.has("forged_in_silence")) && ctx.has("heal_obligation") {
            ctx.nontrivial = true;
        }
        Ok(())
    }
}
