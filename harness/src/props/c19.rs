//! C19 No traffic amplification towards addresses that have not proven themselves.

use crate::engine::*;
use crate::sim::net::*;
use renetcode::verif::Packet as NPacket;
use std::net::SocketAddr;
use std::time::Duration;

pub struct C19;

#[derive(Clone, Copy, Debug, PartialEq, Eq, Hash)]
enum TokKind {
    Good,
    ForeignKey,
    ForeignProtocol,
    WrongHost,
    ShortLived,
}

#[derive(Debug, Hash)]
enum Op {
    Honest { client: usize },
    Present { of: usize, from: usize, how: String, valid: bool, len: usize, reply: Option<usize> },
    Random { from: usize, len: usize },
    Advance { ms: u64 },
    ForgedResponse { from: usize, what: &'static str, pending: bool, full: bool },
    EndSession { id: u64, how: &'static str },
}

fn connected_addrs(nw: &NetWorld) -> Vec<SocketAddr> {
    let s = &nw.servers[0].server;
    s.clients_id().into_iter().filter_map(|id| s.client_addr(id)).collect()
}

/// History model of half-open handshakes: a challenge sent to `from` opens one, a ClientConnected reported for it closes it.
fn note_handshake(nw: &NetWorld, challenged: &mut std::collections::HashSet<SocketAddr>, from: SocketAddr, out: &SrvOut) {
    match out {
        SrvOut::Send { did, .. } if nw.pool[*did].kind == 2 => {
            challenged.insert(from);
        }
        SrvOut::Connected { addr, .. } => {
            challenged.remove(addr);
        }
        _ => {}
    }
}

/// Judge the server's answer to one datagram from an address without a completed handshake.
fn judge(nw: &NetWorld, from: SocketAddr, input_len: usize, out: &SrvOut, valid: bool, what: &str) -> Outcome {
    let reply: Option<(SocketAddr, usize)> = match out {
        SrvOut::None => None,
        SrvOut::Send { to, did } => Some((*to, nw.pool[*did].bytes.len())),
        SrvOut::Connected { addr, did, .. } => Some((*addr, nw.pool[*did].bytes.len())),
        SrvOut::Payload { .. } => return Err(Fail::new("payload_from_unproven", format!("a datagram from an address without a completed handshake surfaced a payload ({what})"))),
        SrvOut::Disconnected { .. } => return Err(Fail::new("disconnect_from_unproven", format!("a datagram from an address without a completed handshake disconnected a client ({what})"))),
    };
    if let Some((to, len)) = reply {
        if to != from {
            return Err(Fail::new("reply_to_other_address", format!("reply of {len} bytes addressed to {to}, the datagram came from {from} ({what})")));
        }
        if len >= input_len {
            return Err(Fail::new("amplification", format!("reply of {len} bytes to a datagram of {input_len} bytes ({what})")));
        }
        if !valid {
            return Err(Fail::new("reply_to_invalid", format!("a datagram carrying neither a valid connect token nor a valid response got a {len}-byte answer ({what})")));
        }
    }
    Ok(())
}

impl Property for C19 {
    fn id(&self) -> &'static str {
        "C19"
    }
    fn level(&self) -> &'static str {
        "exploration"
    }
    fn rule(&self) -> String {
        "A case = secure server with max_clients 1-3 in states empty / pending present / full / busy, up to 6 clients (tokens may share a client id) holding good, foreign-key, foreign-protocol, wrong-host and short-lived tokens; honest handshake steps build the state; adversarial presentations take any request or response datagram ever emitted by a not-yet-connected client and present it from its own or another unproven address exactly, padded to any length up to 1400, truncated, bit-flipped, prefix-modified or repeated, plus random bytes, plus responses in an authentic envelope (sealed with the sender's own key) that echo random bytes or the challenge issued to another client, also at pending addresses of a full server; sessions are ended by the server, by the client's disconnect packet or by a time-out (the address is unproven again, the token stays bound to it); the clock is stepped past token expiry. Oracle per datagram from an address that is not connected: the result is None, or one datagram to the same address strictly shorter than the input (PacketToSend or the payload inside ClientConnected); inputs that carry neither a valid token (by provenance: unmodified or only padded request minted with the server's key, protocol, host and unexpired, and not already used - answered - from a different address) nor a valid response (unmodified response of the client pending at that address, which by the history requires a challenge sent to that address since the last ClientConnected reported for it - a response of a finished session presented again is not one) get None; never a Payload or a ClientDisconnected. Non-trivial: the input decodes as a request or response kind and is >= 18 bytes. Distinct = hash of the decoded operation trace.".into()
    }
    fn assumptions(&self) -> Vec<String> {
        vec!["'valid' is decided by provenance and the harness's knowledge of key, protocol id, host list and expiry".into()]
    }
    fn pbt(&self, tier: Tier) -> PbtCfg {
        PbtCfg { cases: tier.pick(400_000, 8_000_000), max_len: tier.pick(500, 1500), shrink_ms: 120_000 }
    }
    fn required_labels(&self) -> Vec<&'static str> {
        vec!["valid_request", "padded_request", "valid_response", "invalid_token_request", "server_full", "denied_reply", "challenge_reply", "connected_reply", "expired_request", "request_other_address", "bound_token_other_address", "shared_client_id", "forged_response_at_pending", "forged_response_full_server", "session_ended", "stale_response_replayed"]
    }
    fn run_choices(&self, ctx: &mut Ctx) -> Outcome {
        let mut nw = NetWorld::new(ctx.src.u16() as u64);
        let max_clients = 1 + ctx.src.below(3);
        nw.servers.push(mk_server(0, 1, PROTO, max_clients, nw.now, true));
        let n = 3 + ctx.src.below(4);
        let mut kinds = vec![];
        for i in 0..n {
            let k = [TokKind::Good, TokKind::Good, TokKind::ForeignKey, TokKind::ForeignProtocol, TokKind::WrongHost, TokKind::ShortLived][ctx.src.weighted(&[8, 4, 2, 2, 2, 3])];
            // several tokens may name the same client id (the same player asking twice, from two addresses)
            let ident = if ctx.src.chance(90) { ctx.src.below(2) } else { 2 + i };
            if i > 0 && ident < 2 {
                ctx.label("shared_client_id");
            }
            let spec = TokenSpec {
                client_id: 70 + ident as u64,
                user: i as u64,
                expire_seconds: if k == TokKind::ShortLived { 2 } else { 600 },
                timeout: 15,
                addrs: if k == TokKind::WrongHost {
                    // another host, or addresses sharing an ip or a port with the server's two public addresses
                    let nm = near_miss_addrs(0);
                    match ctx.src.below(3) {
                        0 => vec![server_addr(3)],
                        1 => vec![nm[ctx.src.below(4)]],
                        _ => nm.to_vec(),
                    }
                } else if ctx.src.chance(40) {
                    vec![server_alt_addr(0)]
                } else {
                    vec![server_addr(0)]
                },
                key: if k == TokKind::ForeignKey { key(2) } else { key(1) },
                protocol: if k == TokKind::ForeignProtocol { PROTO_OTHER } else { PROTO },
            };
            let t = nw.mint(&spec);
            nw.add_client(t, client_addr(i), i as u64);
            kinds.push(k);
        }
        ctx.op(&(max_clients, &kinds));
        let start = nw.now;
        let max_ops = ctx.tier.pick(60, 200);
        let mut ops = 0;
        // connect token (by owner) -> the address whose request with it was first answered (the server binds a token to it)
        let mut bound: std::collections::HashMap<usize, SocketAddr> = Default::default();
        // addresses whose request was answered with a challenge since the last ClientConnected reported for them: only there can a
        // response be 'the response of the client pending at that address' (decided from the history, not by asking the server)
        let mut challenged: std::collections::HashSet<SocketAddr> = Default::default();
        while !ctx.src.exhausted() && ops < max_ops {
            ops += 1;
            let op = match ctx.src.weighted(&[10, 14, 3, 3, 5, 2]) {
                0 => {
                    // honest step of one client: update, deliver, deliver the reply
                    let c = ctx.src.below(n);
                    let dt = Duration::from_millis(ctx.src.pick(&[260u64, 20, 100]));
                    if let Some(did) = nw.client_update(c, dt) {
                        let d = nw.pool[did].clone();
                        let lost = ctx.src.chance(70);
                        if (d.to == server_addr(0) || d.to == server_alt_addr(0)) && !lost {
                            let proven = connected_addrs(&nw).contains(&d.src);
                            nw.pool[did].presented += 1;
                            let out = nw.server_recv(0, d.src, &d.bytes);
                            if d.kind == 0 && matches!(out, SrvOut::Send { .. }) {
                                bound.entry(c).or_insert(d.src);
                            }
                            if !proven {
                                let expired = (nw.now - start).as_secs() >= 2 && kinds[c] == TokKind::ShortLived;
                                let valid = matches!(kinds[c], TokKind::Good | TokKind::ShortLived) && !expired;
                                judge(&nw, d.src, d.bytes.len(), &out, valid || (d.kind == 3 && challenged.contains(&d.src)), "honest step")?;
                            }
                            note_handshake(&nw, &mut challenged, d.src, &out);
                            match &out {
                                SrvOut::Send { did: r, .. } | SrvOut::Connected { did: r, .. } => {
                                    let b = nw.pool[*r].bytes.clone();
                                    match nw.pool[*r].kind {
                                        1 => ctx.label("denied_reply"),
                                        2 => ctx.label("challenge_reply"),
                                        4 => ctx.label("connected_reply"),
                                        _ => {}
                                    }
                                    nw.client_recv(c, &b);
                                }
                                _ => {}
                            }
                        }
                    }
                    if nw.servers[0].server.connected_clients() >= max_clients {
                        ctx.label("server_full");
                    }
                    Op::Honest { client: c }
                }
                1 => {
                    // adversarial presentation of a client-emitted request/response
                    let cands: Vec<usize> = nw.pool.iter().enumerate().filter(|(_, d)| matches!(d.from, Emitter::Client(_)) && (d.kind == 0 || d.kind == 3)).map(|(i, _)| i).collect();
                    if cands.is_empty() {
                        continue;
                    }
                    let i = cands[ctx.src.below(cands.len())];
                    let d = nw.pool[i].clone();
                    let Emitter::Client(owner) = d.from else { continue };
                    let from_idx = if ctx.src.chance(170) { owner } else { ctx.src.below(n + 2) };
                    let from = client_addr(from_idx);
                    if connected_addrs(&nw).contains(&from) {
                        continue;
                    }
                    let (bytes, how, modified) = match ctx.src.weighted(&[6, 6, 6]) {
                        0 => (d.bytes.clone(), "exact".to_string(), false),
                        1 => {
                            let mut b = d.bytes.clone();
                            let room = 1400usize.saturating_sub(b.len());
                            let pad = match ctx.src.below(3) {
                                0 => 1.min(room),
                                1 => room,
                                _ => ctx.src.below(room + 1),
                            };
                            b.extend(std::iter::repeat(ctx.src.u8()).take(pad));
                            (b, format!("padded+{pad}"), false)
                        }
                        _ => {
                            let (b, m) = mutate(&mut ctx.src, &d.bytes);
                            let only_extended = matches!(m, Mutation::Extend(_));
                            (b, format!("{m:?}"), !only_extended && m != Mutation::None)
                        }
                    };
                    let expired = (nw.now - start).as_secs() >= 2 && kinds[owner] == TokKind::ShortLived;
                    let good_token = matches!(kinds[owner], TokKind::Good | TokKind::ShortLived) && !expired;
                    let pending_here = nw.servers[0].server.verif_pending_addrs().contains(&from);
                    // a mutated prefix that keeps the request kind (only the unused sequence-length nibble changed) is still the same request
                    let benign_prefix = d.kind == 0 && modified && bytes.len() == d.bytes.len() && bytes[1..] == d.bytes[1..] && bytes[0] & 0x0F == 0;
                    let valid = if d.kind == 0 { good_token && (!modified || benign_prefix) } else { !modified && pending_here && challenged.contains(&from) && from_idx == owner };
                    if d.kind == 3 && !modified && from_idx == owner && !challenged.contains(&from) {
                        ctx.label("stale_response_replayed");
                    }
                    if d.kind == 0 {
                        if valid && how.starts_with("padded") {
                            ctx.label("padded_request");
                        } else if valid {
                            ctx.label("valid_request");
                        } else if expired {
                            ctx.label("expired_request");
                        } else {
                            ctx.label("invalid_token_request");
                        }
                        if from_idx != owner {
                            ctx.label("request_other_address");
                        }
                    } else if valid {
                        ctx.label("valid_response");
                    }
                    let out = nw.server_recv(0, from, &bytes);
                    let reply = match &out {
                        SrvOut::Send { did, .. } | SrvOut::Connected { did, .. } => Some(nw.pool[*did].bytes.len()),
                        _ => None,
                    };
                    judge(&nw, from, bytes.len(), &out, valid, &format!("{how} of datagram {i} (kind {}) of client {owner} ({:?}) presented from address {from_idx}", d.kind, kinds[owner]))?;
                    note_handshake(&nw, &mut challenged, from, &out);
                    if d.kind == 0 && valid {
                        match bound.get(&owner) {
                            Some(a) if *a != from => {
                                // the token was already used from another address: not a valid token for this sender
                                ctx.label("bound_token_other_address");
                                if !matches!(out, SrvOut::None) {
                                    return Err(Fail::new(
                                        "reply_to_token_of_other_address",
                                        format!("a request carrying a connect token already used from {a} was answered at {from} ({how}, server has {} of {max_clients} clients): {out:?}", nw.servers[0].server.connected_clients()),
                                    ));
                                }
                            }
                            None if matches!(out, SrvOut::Send { .. }) => {
                                bound.insert(owner, from);
                            }
                            _ => {}
                        }
                    }
                    if bytes.len() >= 18 && (bytes[0] & 0x0F == 0 || bytes[0] & 0x0F == 3) {
                        ctx.nontrivial = true;
                    }
                    // the reply (if any) reaches the owner only when it was presented from its own address
                    if from_idx == owner {
                        if let SrvOut::Send { did, .. } | SrvOut::Connected { did, .. } = &out {
                            let b = nw.pool[*did].bytes.clone();
                            nw.client_recv(owner, &b);
                        }
                    }
                    Op::Present { of: i, from: from_idx, how, valid, len: bytes.len(), reply }
                }
                2 => {
                    let from_idx = ctx.src.below(n + 2);
                    let from = client_addr(from_idx);
                    if connected_addrs(&nw).contains(&from) {
                        continue;
                    }
                    let len = match ctx.src.below(3) {
                        0 => ctx.src.pick(&[0usize, 1, 17, 18, 19, 1061, 1062, 1063, 1400]),
                        _ => ctx.src.below(1401),
                    };
                    let mut b = vec![0u8; len];
                    fill_stream(ctx.src.u32() as u64, &mut b);
                    if len > 0 && ctx.src.chance(200) {
                        b[0] = ctx.src.pick(&[0u8, 3, 0x13, 0x10, 5, 4]);
                    }
                    let out = nw.server_recv(0, from, &b);
                    judge(&nw, from, len, &out, false, &format!("random {len} bytes"))?;
                    if len >= 18 && (b[0] & 0x0F == 0 || b[0] & 0x0F == 3) {
                        ctx.nontrivial = true;
                    }
                    Op::Random { from: from_idx, len }
                }
                3 => {
                    let ms = ctx.src.pick(&[300u64, 1000, 2500]);
                    let dt = Duration::from_millis(ms);
                    nw.now += dt;
                    nw.server_advance(0, dt);
                    Op::Advance { ms }
                }
                5 => {
                    // a session ends (kicked, quit, timed out): its address is unproven again, its token stays bound to it
                    let ids = nw.servers[0].server.clients_id();
                    if ids.is_empty() {
                        continue;
                    }
                    let id = ids[ctx.src.below(ids.len())];
                    let addr = nw.servers[0].server.client_addr(id);
                    let how = match ctx.src.below(3) {
                        0 => {
                            nw.server_disconnect(0, id);
                            "server_disconnect"
                        }
                        1 => {
                            let Some(c) = (0..n).find(|&c| Some(nw.clients[c].addr) == addr && nw.clients[c].client.is_connected()) else { continue };
                            if let Some(did) = nw.client_disconnect(c) {
                                let d = nw.pool[did].clone();
                                nw.pool[did].presented += 1;
                                nw.server_recv(0, d.src, &d.bytes);
                            }
                            "client_disconnect"
                        }
                        _ => {
                            let dt = Duration::from_secs(20);
                            nw.now += dt;
                            nw.server_advance(0, dt);
                            for id in nw.servers[0].server.clients_id() {
                                nw.server_update_client(0, id);
                            }
                            "timeout"
                        }
                    };
                    if !nw.servers[0].server.clients_id().contains(&id) {
                        ctx.label("session_ended");
                    }
                    Op::EndSession { id, how }
                }
                _ => {
                    // a response in an authentic envelope (sealed with the sender's own client-to-server key, as the holder of a token can)
                    // whose echoed challenge is not one this server issued to it: random bytes, or the challenge issued to another client
                    let c = ctx.src.below(n);
                    let from = client_addr(c);
                    if connected_addrs(&nw).contains(&from) {
                        continue;
                    }
                    let (what, seq, data) = if ctx.src.chance(128) {
                        let mut d = [0u8; 300];
                        fill_stream(ctx.src.u32() as u64, &mut d);
                        ("random_challenge", ctx.src.u16() as u64, d)
                    } else {
                        let others: Vec<(u64, [u8; 300])> = nw
                            .pool
                            .iter()
                            .filter(|d| d.kind == 2 && d.to != from)
                            .filter_map(|d| {
                                let o = (0..n).find(|&i| client_addr(i) == d.to)?;
                                peek_challenge(&d.bytes, nw.clients[o].token.protocol_id, &nw.clients[o].token.server_to_client_key)
                            })
                            .collect();
                        if others.is_empty() {
                            continue;
                        }
                        let (s, d) = others[ctx.src.below(others.len())];
                        ("challenge_of_another_client", s, d)
                    };
                    let t = &nw.clients[c].token;
                    let b = seal(&NPacket::Response { token_sequence: seq, token_data: data }, t.protocol_id, 7000 + ops as u64, &t.client_to_server_key);
                    let pending = nw.servers[0].server.verif_pending_addrs().contains(&from);
                    let full = nw.servers[0].server.connected_clients() >= max_clients;
                    if pending {
                        ctx.label("forged_response_at_pending");
                        if full {
                            ctx.label("forged_response_full_server");
                        }
                    }
                    let out = nw.server_recv(0, from, &b);
                    judge(&nw, from, b.len(), &out, false, &format!("response sealed by client {c} echoing {what} (pending here: {pending}, server full: {full})"))?;
                    ctx.nontrivial = true;
                    Op::ForgedResponse { from: c, what, pending, full }
                }
            };
            ctx.op(&op);
        }
        Ok(())
    }
}
