//! Shared skeleton of the fault-simulation properties (C01, C02, C03, C08, C09, C14, C15).

use crate::engine::*;
use crate::sim::driver::*;
use crate::sim::world::*;

pub struct SimSpec {
    pub cfg: CfgSpec,
    pub ops: OpSpec,
    pub oracles: Oracles,
    pub liveness: bool,
    pub quiescence: bool,
    pub quiescence_memory: bool,
}

// budgets from 'a few messages' to 'practically unlimited' (4 GiB)
pub const MEMS_LARGE: &[usize] = &[200_000, 5 * 1024 * 1024, 60_000, u32::MAX as usize];
pub const MEMS_SMALL: &[usize] = &[3_000, 5_000, 8_000, 16_000, 64_000];
pub const BUDGETS_WIDE: &[u64] = &[60_000, 1_200, 2_400, 6_000, 20_000, 1_000_000, 1 << 40];
pub const BUDGETS_BIG: &[u64] = &[60_000, 20_000_000];
// resend_time zero is legal: everything unacknowledged is due again at every flush
pub const RESENDS: &[u64] = &[100, 20, 50, 300, 400, 0, 1];
// update(0) is legal, and so is a tick far longer than the 3 s horizons
pub const DTS: &[u64] = &[16, 1, 50, 99, 100, 101, 250, 400, 1000, 3500, 0, 10_000];
pub const DELAYS: &[u64] = &[30, 120, 400, 1000, 3100];

pub fn default_ops() -> OpSpec {
    OpSpec {
        max_ops: 400,
        ops: [90, 70, 25, 12, 20, 20, 19],
        data_faults: [150, 50, 26, 30],
        ack_faults: [140, 60, 26, 30],
        dts: DTS,
        delays: DELAYS,
        sizes: [50, 70, 40, 50, 46],
        max_slices: 12,
        burst: 6,
        prompt_drain: 64,
        polite: true,
        extra: 0,
    }
}

/// Runs one simulated case; `after` sees the world once the fault phase and the heal phase are over.
pub fn run_sim(ctx: &mut Ctx, spec: &SimSpec, step: StepHook, after: &mut dyn FnMut(&mut World, &mut Ctx, &HealReport) -> Outcome) -> Outcome {
    let cfg = gen_cfg(&mut ctx.src, &spec.cfg);
    ctx.op(&cfg);
    let mut w = World::new(cfg, spec.oracles.clone());
    run_ops(&mut w, ctx, &spec.ops, step, &mut no_extra)?;
    let report = heal(&mut w, ctx, spec.liveness, step)?;
    if spec.quiescence && report.completed && (0..w.cfg.n_clients).all(|i| w.conn_alive(i)) {
        quiescence(&mut w, ctx, step, spec.quiescence_memory)?;
    }
    if w.insisted {
        ctx.label("insisted_over_budget_send");
    }
    for i in 0..w.cfg.n_clients {
        for to_client in [false, true] {
            let d = Dir { client: i, to_client };
            if let Some(r) = w.sender_reason(d) {
                ctx.label("some_disconnect");
                if is_mem_reason(&r) {
                    ctx.label("mem_disconnect");
                }
            }
        }
    }
    after(&mut w, ctx, &report)
}

pub fn no_step(_: &mut World, _: &mut Ctx) -> Outcome {
    Ok(())
}
