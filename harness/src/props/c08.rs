//! C08 A reliable message is released by the sender only after the peer really has it.

use super::simcase::*;
use crate::engine::*;
use crate::sim::driver::*;
use crate::sim::world::*;

pub struct C08;

fn spec(tier: Tier) -> SimSpec {
    let mut ops = default_ops();
    ops.max_ops = tier.pick(300, 900);
    // faults concentrated on the ack path
    ops.ack_faults = [90, 70, 40, 56];
    ops.data_faults = [130, 60, 26, 40];
    ops.ops = [90, 70, 15, 12, 30, 30, 9];
    SimSpec {
        cfg: CfgSpec {
            kinds: [1, 4, 4],
            chans: (1, 3),
            mems: MEMS_LARGE,
            budgets: BUDGETS_WIDE,
            resends: RESENDS,
            clients: (1, 1),
            must_have: Some(Kind::Ordered),
        },
        ops,
        oracles: Oracles { release: true, content: true, ..Default::default() },
        liveness: false,
        quiescence: true,
        quiescence_memory: false,
    }
}

impl Property for C08 {
    fn id(&self) -> &'static str {
        "C08"
    }
    fn level(&self) -> &'static str {
        "fault_enumeration"
    }
    fn rule(&self) -> String {
        "Generated: renet pair with faults concentrated on ack packets (lost, duplicated, delayed beyond 3 s, reordered), data in every arrival order, flush/deliver interleaved freely. Enumerated small scope: every arrival order of every subset of n<=6 packets (slices and small messages) with the receiver's ack flushed after every prefix. Oracles after every step: (1) every sequence denoted by an emitted ack packet was handed to that endpoint; (2) every reliable message absent from the sender's unacknowledged set (hook), and every slice flagged acknowledged, had all its packets handed over; cross-check through the public API: bytes in use >= bytes of messages not fully handed over; (3) after healing, all messages are released within 12 ticks. Non-trivial: an ack packet was lost or delayed while reliable data was in flight, or >= 3 disjoint ranges were pending. Distinct = hash of the decoded operation trace.".into()
    }
    fn assumptions(&self) -> Vec<String> {
        vec!["'handed to the peer' = process_packet was called with the packet while the peer connection was not disconnected".into()]
    }
    fn pbt(&self, tier: Tier) -> PbtCfg {
        PbtCfg { cases: tier.pick(120_000, 2_000_000), max_len: tier.pick(1500, 5000), shrink_ms: 120_000 }
    }
    fn required_labels(&self) -> Vec<&'static str> {
        vec!["ack_lost", "ack_dup", "ack_delayed_3s", "ranges>=3", "rel_slice_sent", "quiescence_checked"]
    }
    fn enums(&self, tier: Tier) -> Vec<(&'static str, u64)> {
        // all ordered selections (permutations of subsets) of 6 packets: sum_k 6!/(6-k)! = 1957;
        // thorough: each with every subset of the (up to 6) ack packets lost
        match tier {
            Tier::Quick => vec![("arrival_orders", 1957)],
            Tier::Thorough => vec![("arrival_orders", 1957), ("arrival_orders_ack_loss", 1957 * 64)],
        }
    }
    fn run_enum(&self, name: &str, index: u64, ctx: &mut Ctx) -> Outcome {
        let (index, ack_mask) = if name == "arrival_orders_ack_loss" { (index / 64, index % 64) } else { (index, 0) };
        // decode index -> ordered selection of distinct packets out of 6
        let mut sel: Vec<usize> = vec![];
        {
            let mut idx = index;
            // enumerate by length k = 0..6
            let mut k = 0;
            loop {
                let count: u64 = (0..k).map(|i| (6 - i) as u64).product();
                if idx < count {
                    break;
                }
                idx -= count;
                k += 1;
            }
            let mut pool: Vec<usize> = (0..6).collect();
            let mut rem = idx;
            for i in 0..k {
                let base: u64 = ((i + 1)..k).map(|j| (6 - j) as u64).product();
                let pos = (rem / base) as usize;
                rem %= base;
                sel.push(pool.remove(pos));
            }
        }
        ctx.op(&(&sel, ack_mask));
        let cfg = WorldCfg {
            bytes_per_tick: 1_000_000,
            s2c: vec![Chan { id: 0, kind: Kind::Ordered, max_mem: 100_000, resend_ms: 100 }, Chan { id: 1, kind: Kind::Unordered, max_mem: 100_000, resend_ms: 100 }],
            c2s: vec![Chan { id: 0, kind: Kind::Ordered, max_mem: 100_000, resend_ms: 100 }],
            n_clients: 1,
            id_scheme: 0,
        };
        let mut w = World::new(cfg, Oracles { release: true, content: true, ..Default::default() });
        let d = Dir { client: 0, to_client: true };
        // 6 packets: 3 slices of one message (ordered), small message (ordered), 2 slices ... (unordered)
        w.send(d, 0, 2 * SLICE + 5, true, 0)?;
        w.send(d, 0, 40, true, 0)?;
        w.send(d, 1, SLICE + 1, true, 0)?;
        w.advance(16);
        let pids = w.flush(d)?;
        if pids.len() != 6 {
            return Err(Fail::new("enum_setup", format!("expected 6 packets, got {}", pids.len())));
        }
        for (n, &i) in sel.iter().enumerate() {
            w.handover(pids[i])?;
            w.step_check()?;
            // receiver acks after every prefix; the ack is delivered at once
            let acks = w.flush(d.rev())?;
            for a in acks {
                // bit n of the mask = the ack flushed after the n-th arrival is lost
                if ack_mask & (1 << n) == 0 {
                    w.handover(a)?;
                }
            }
            w.step_check()?;
            if n >= 2 {
                ctx.nontrivial = true;
            }
        }
        w.drain_all(d)?;
        w.step_check()
    }
    fn run_choices(&self, ctx: &mut Ctx) -> Outcome {
        let s = spec(ctx.tier);
        let mut step = |w: &mut World, ctx: &mut Ctx| -> Outcome {
            for i in 0..w.cfg.n_clients {
                if let Some(c) = w.clients.get(i) {
                    if c.verif_pending_acks().len() >= 3 {
                        ctx.label("ranges>=3");
                    }
                }
            }
            Ok(())
        };
        run_sim(ctx, &s, &mut step, &mut |_w, ctx, _r| {
            if ((ctx.has("ack_lost") || ctx.has("ack_delayed")) && (ctx.has("rel_slice_sent") || ctx.has("packed_small"))) || ctx.has("ranges>=3") {
                ctx.nontrivial = true;
            }
            Ok(())
        })
    }
}
