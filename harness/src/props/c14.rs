//! C14 Per-tick bandwidth budget is respected, in channel priority order.

use super::simcase::*;
use crate::engine::*;
use crate::sim::driver::*;
use crate::sim::world::*;

pub struct C14;

fn spec(tier: Tier) -> SimSpec {
    let mut ops = default_ops();
    ops.max_ops = tier.pick(250, 700);
    ops.ops = [90, 110, 15, 8, 20, 12, 1];
    ops.burst = 12;
    ops.sizes = [30, 70, 50, 50, 56];
    ops.max_slices = 8;
    SimSpec {
        cfg: CfgSpec {
            kinds: [3, 3, 3],
            chans: (1, 4),
            mems: MEMS_LARGE,
            budgets: &[2_400, 0, 1, 600, 1_199, 1_200, 1_201, 3_000, 3_600, 5_000, 12_000, 60_000],
            resends: RESENDS,
            clients: (1, 1),
            must_have: None,
        },
        ops,
        oracles: Oracles { budget: true, content: true, ..Default::default() },
        liveness: true,
        quiescence: false,
        quiescence_memory: false,
    }
}

impl Property for C14 {
    fn id(&self) -> &'static str {
        "C14"
    }
    fn level(&self) -> &'static str {
        "exploration"
    }
    fn rule(&self) -> String {
        "A case = 1-4 channels per direction in generated order and kinds, a tick budget from 0 to 60000 bytes (0, 1, 600, 1199, 1200, 1201, 2400, 3000, ...), queues of small and sliced messages, retransmission backlogs created by per-packet faults. Every packet of every flush is decoded with the crate's decoder (hook). Oracles per flush: sum of message/slice payload bytes <= available_bytes_per_tick; walking channels in configuration order with the budget left after each: no eligible (unacknowledged and never sent or due) small message with len <= budget-left-after-its-channel and no eligible slice with 1200 <= budget-left was left unsent; an unreliable message dropped for budget had len > budget-left-after-its-channel; an unreliable message never appears in a later flush; reliable leftovers arrive later (bounded liveness, budget >= 1200). Non-trivial: the budget was exhausted inside a channel that is not the last one while a sliced message was in progress or an unreliable message was dropped. Distinct = hash of the decoded operation trace.".into()
    }
    fn assumptions(&self) -> Vec<String> {
        vec![
            "a slice is eligible only with a full slice (1200 B) of budget left, as the channel documentation says ('slice by slice')".into(),
            "eligibility of retransmissions uses the sender's clock and the channel's resend_time".into(),
        ]
    }
    fn pbt(&self, tier: Tier) -> PbtCfg {
        PbtCfg { cases: tier.pick(120_000, 2_000_000), max_len: tier.pick(1500, 5000), shrink_ms: 120_000 }
    }
    fn required_labels(&self) -> Vec<&'static str> {
        vec!["budget_hit_mid", "unrel_dropped_budget", "rel_slice_sent", "budget_below_slice"]
    }
    fn run_choices(&self, ctx: &mut Ctx) -> Outcome {
        let s = spec(ctx.tier);
        let mut last_flushes: Vec<u64> = vec![];
        let mut step = |w: &mut World, ctx: &mut Ctx| -> Outcome {
            // labels: inspect the most recent flush of each direction
            if last_flushes.len() != w.dirs.len() {
                last_flushes = vec![0; w.dirs.len()];
            }
            for (di, ds) in w.dirs.iter().enumerate() {
                if ds.flushes == last_flushes[di] {
                    continue;
                }
                last_flushes[di] = ds.flushes;
                let fno = ds.flushes - 1;
                let mut by_chan: std::collections::BTreeMap<u8, u64> = Default::default();
                for p in w.packets.iter().rev().take_while(|p| p.flush_no + 3 > fno || p.dir != ds.dir) {
                    if p.dir != ds.dir || p.flush_no != fno {
                        continue;
                    }
                    match &p.info {
                        PInfo::SmallRel { ch, msgs } => *by_chan.entry(*ch).or_insert(0) += msgs.iter().map(|m| m.1 as u64).sum::<u64>(),
                        PInfo::SmallUnrel { ch, hashes } => *by_chan.entry(*ch).or_insert(0) += hashes.iter().map(|m| m.1 as u64).sum::<u64>(),
                        PInfo::RelSlice { ch, len, .. } | PInfo::UnrelSlice { ch, len, .. } => *by_chan.entry(*ch).or_insert(0) += *len as u64,
                        _ => {}
                    }
                }
                let total: u64 = by_chan.values().sum();
                let budget = w.cfg.bytes_per_tick;
                if budget > 0 && total + 1200 > budget && total > 0 {
                    // exhausted: was it inside a channel that is not the last?
                    let last = *ds.order.last().unwrap();
                    let mut acc = 0;
                    for ch in ds.order.iter() {
                        acc += by_chan.get(ch).copied().unwrap_or(0);
                        if acc + 1200 > budget && *ch != last {
                            ctx.label("budget_hit_mid");
                            break;
                        }
                    }
                }
                for cm in ds.chans.values() {
                    if cm.cfg.kind == Kind::Unreliable && cm.msgs.iter().any(|m| m.flushed && m.sent_in_flush.is_none()) {
                        ctx.label("unrel_dropped_budget");
                    }
                }
            }
            Ok(())
        };
        run_sim(ctx, &s, &mut step, &mut |_w, ctx, _r| {
            if ctx.has("budget_hit_mid") && (ctx.has("rel_slice_sent") || ctx.has("unrel_dropped_budget")) {
                ctx.nontrivial = true;
            }
            Ok(())
        })
    }
}
