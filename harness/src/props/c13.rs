//! C13 Every produced packet fits its carrier: renet <= 1300 B, netcode <= 1400 B.

use super::simcase::*;
use crate::engine::*;
use crate::sim::driver::*;
use crate::sim::net::*;
use crate::sim::world::*;
use std::time::Duration;

pub struct C13;

const PRESETS: &[u64] = &[0, 62, 63, 16382, 16383, (1 << 30) - 2, (1 << 30) - 1, (1 << 40), (1 << 62) - 2_000_000];

fn netcode_seq_preset(src: &mut Src) -> u64 {
    match src.below(6) {
        0 => 0,
        1 => 250,
        2 => 65_530,
        3 => (1 << 32) - 3,
        4 => (1 << 56) - 2,
        // eight sequence bytes with room for every packet a case can produce (the counter itself cannot pass 2^64 - 1)
        _ => u64::MAX - (1 << 40),
    }
}

/// A connected netcode pair used to carry the renet packets of the case.
fn carrier(src: &mut Src) -> Result<NetWorld, Fail> {
    let mut nw = NetWorld::new(src.u32() as u64);
    let s = mk_server(0, 1, PROTO, 4, nw.now, true);
    nw.servers.push(s);
    let token = nw.mint(&TokenSpec { client_id: 7, user: 7, expire_seconds: 600, timeout: 15, addrs: vec![server_addr(0)], key: key(1), protocol: PROTO });
    let c = nw.add_client(token, client_addr(0), 7);
    if !nw.handshake(0, c, Duration::from_millis(50), 20) {
        return Err(Fail::new("carrier_handshake", "honest loss-free netcode handshake did not complete"));
    }
    let ss = netcode_seq_preset(src);
    let cs = netcode_seq_preset(src);
    nw.servers[0].server.verif_set_client_sequence(7, ss);
    nw.clients[0].client.verif_set_sequence(cs);
    Ok(nw)
}

fn check_pool_sizes(nw: &NetWorld, from: usize) -> Outcome {
    for d in nw.pool.iter().skip(from) {
        if d.bytes.len() > 1400 {
            return Err(Fail::new("netcode_datagram_size", format!("netcode layer produced a datagram of {} bytes (kind {}, sequence {}), limit 1400", d.bytes.len(), d.kind, d.seq)));
        }
    }
    Ok(())
}

impl C13 {
    fn renet_case(&self, ctx: &mut Ctx) -> Outcome {
        let cfgspec = CfgSpec { kinds: [3, 4, 3], chans: (1, 3), mems: &[5 * 1024 * 1024, 200_000], budgets: &[60_000, 1_000_000, 6_000], resends: RESENDS, clients: (1, 1), must_have: None };
        let mut ops = default_ops();
        ops.max_ops = ctx.tier.pick(200, 600);
        ops.ops = [80, 80, 20, 6, 20, 14, 4];
        ops.extra = 60;
        // lengths around the packing threshold, and tiny ones
        ops.sizes = [70, 30, 80, 20, 10];
        ops.max_slices = 4;
        ops.burst = 4;
        let cfg = gen_cfg(&mut ctx.src, &cfgspec);
        ctx.op(&cfg);
        let mut w = World::new(cfg, Oracles { sizes: true, content: true, ..Default::default() });
        // counter presets at varint width boundaries
        let mut wide = false;
        for d in w.all_dirs() {
            let seq = ctx.src.pick(PRESETS);
            if seq >= 1 << 30 {
                wide = true;
            }
            if d.to_client {
                if let Some(c) = w.server.verif_connection_mut(client_id(d.client)) {
                    c.verif_set_packet_sequence(seq);
                }
            } else {
                w.clients[d.client].verif_set_packet_sequence(seq);
            }
            let chans: Vec<(u8, Kind)> = w.dirs[d.idx()].chans.values().map(|c| (c.cfg.id, c.cfg.kind)).collect();
            for (ch, kind) in chans {
                let base = ctx.src.pick(PRESETS);
                if base >= 1 << 30 {
                    wide = true;
                }
                if kind.reliable() {
                    w.dirs[d.idx()].chans.get_mut(&ch).unwrap().id_base = base;
                    if d.to_client {
                        w.server.verif_connection_mut(client_id(d.client)).unwrap().verif_set_next_send_message_id(ch, base);
                        w.clients[d.client].verif_set_next_receive_message_id(ch, base);
                    } else {
                        w.clients[d.client].verif_set_next_send_message_id(ch, base);
                        w.server.verif_connection_mut(client_id(d.client)).unwrap().verif_set_next_receive_message_id(ch, base);
                    }
                } else if d.to_client {
                    w.server.verif_connection_mut(client_id(d.client)).unwrap().verif_set_unreliable_sliced_id(ch, base);
                } else {
                    w.clients[d.client].verif_set_unreliable_sliced_id(ch, base);
                }
            }
            ctx.op(&("preset", d.client, d.to_client, seq));
        }
        if wide {
            ctx.label("wide_varint");
        }
        let mut nw = carrier(&mut ctx.src)?;
        let mut seen = 0usize;
        let mut carried = |w: &mut World, ctx: &mut Ctx| -> Outcome {
            // every new renet packet goes through the netcode layer of the sending side
            while seen < w.packets.len() {
                let p = &w.packets[seen];
                seen += 1;
                if p.hostile {
                    continue;
                }
                if p.bytes.len() >= 1215 {
                    ctx.label("renet_packet_near_limit");
                }
                if let PInfo::Ack { ranges } = &p.info {
                    if ranges.len() >= 60 {
                        ctx.label("ack_60_ranges");
                    }
                }
                if let PInfo::SmallRel { msgs, .. } = &p.info {
                    if msgs.len() >= 100 {
                        ctx.label("full_packet_tiny_messages");
                    }
                }
                if let PInfo::SmallUnrel { hashes, .. } = &p.info {
                    if hashes.len() >= 100 {
                        ctx.label("full_packet_tiny_messages");
                    }
                }
                let from = nw.pool.len();
                let r = if p.dir.to_client { nw.server_payload(0, 7, &p.bytes) } else { nw.client_payload(0, &p.bytes) };
                if let Err(e) = r {
                    return Err(Fail::new("netcode_refused_renet_packet", format!("generate_payload_packet refused a renet packet of {} bytes: {e}", p.bytes.len())));
                }
                check_pool_sizes(&nw, from)?;
                if nw.pool.len() > 64 {
                    nw.pool.clear();
                }
            }
            Ok(())
        };
        let mut extra = |w: &mut World, ctx: &mut Ctx| -> Outcome {
            let d = pick_dir(&mut ctx.src, w);
            match ctx.src.below(4) {
                0 => {
                    // burst of tiny messages in one tick (worst id/length overhead per payload byte)
                    let ch = pick_chan(&mut ctx.src, w, d);
                    let n = 50 + ctx.src.below(ctx.tier.pick(600, 2000));
                    let len = ctx.src.below(9);
                    for _ in 0..n {
                        w.send(d, ch, len, true, 0)?;
                    }
                    ctx.label("tiny_burst");
                    ctx.op(&("tiny_burst", d.client, d.to_client, ch, n, len));
                }
                1 => {
                    // many single-packet flushes, every other one lost: builds many ack ranges at the receiver
                    let ch = pick_chan(&mut ctx.src, w, d);
                    let n = 20 + ctx.src.below(160);
                    let jump = ctx.src.pick(&[0u64, 0, 1 << 14, 1 << 31]);
                    for i in 0..n {
                        w.send(d, ch, 1 + (i % 5), true, 0)?;
                        let pids = w.flush(d)?;
                        for pid in pids {
                            if i % 2 == 0 {
                                w.handover(pid)?;
                            }
                        }
                        if jump > 0 {
                            // long sessions with loss: sequence numbers far apart
                            let s = if d.to_client { w.server.verif_connection_mut(client_id(d.client)) } else { w.clients.get_mut(d.client) };
                            if let Some(s) = s {
                                let cur = s.verif_packet_sequence();
                                if cur < (1 << 61) {
                                    s.verif_set_packet_sequence(cur + jump);
                                }
                            }
                        }
                    }
                    ctx.label("gap_burst");
                    ctx.op(&("gap_burst", d.client, d.to_client, ch, n, jump));
                }
                3 => {
                    // one message a little above one slice - around what would still fit one carrier if it travelled whole - alone
                    // or behind a few tiny ones, on any kind of channel
                    let ch = pick_chan(&mut ctx.src, w, d);
                    let len = if ctx.src.chance(160) { 1280 + ctx.src.below(22) } else { 1201 + ctx.src.below(120) };
                    let tiny = ctx.src.pick(&[0usize, 0, 1, 3]);
                    for _ in 0..tiny {
                        w.send(d, ch, 1, true, 0)?;
                    }
                    w.send(d, ch, len, true, 0)?;
                    ctx.label("just_above_one_slice");
                    ctx.op(&("just_above_one_slice", d.client, d.to_client, ch, len, tiny));
                }
                _ => {
                    // descending arrival of separately flushed packets
                    let ch = pick_chan(&mut ctx.src, w, d);
                    let n = 20 + ctx.src.below(ctx.tier.pick(380, 700));
                    let jump = ctx.src.pick(&[0u64, 1 << 14, 1 << 31, 1 << 31]);
                    let mut all = vec![];
                    for i in 0..n {
                        w.send(d, ch, 1 + (i % 3), true, 0)?;
                        all.extend(w.flush(d)?);
                        // leave a hole (small or wide) after every packet
                        let s = if d.to_client { w.server.verif_connection_mut(client_id(d.client)) } else { w.clients.get_mut(d.client) };
                        if let Some(s) = s {
                            let cur = s.verif_packet_sequence();
                            if cur < (1 << 61) {
                                s.verif_set_packet_sequence(cur + 1 + (i as u64 % 3) + jump);
                            }
                        }
                    }
                    for pid in all.into_iter().rev() {
                        w.handover(pid)?;
                    }
                    ctx.label("descending_arrival");
                    ctx.op(&("descending", d.client, d.to_client, ch, n, jump));
                }
            }
            Ok(())
        };
        run_ops(&mut w, ctx, &ops, &mut carried, &mut extra)?;
        heal(&mut w, ctx, false, &mut carried)?;
        for d in w.all_dirs() {
            if let Some(renet::DisconnectReason::PacketSerialization(e)) = w.sender_reason(d) {
                return Err(Fail::new("serialization_failed", format!("connection disconnected because a packet failed to serialise: {e:?}")));
            }
        }
        if (ctx.has("wide_varint") && ctx.has("full_packet_tiny_messages")) || ctx.has("ack_60_ranges") {
            ctx.nontrivial = true;
        }
        Ok(())
    }

    fn netcode_case(&self, ctx: &mut Ctx) -> Outcome {
        let mut nw = carrier(&mut ctx.src)?;
        check_pool_sizes(&nw, 0)?;
        let n = 1 + ctx.src.below(40);
        for _ in 0..n {
            let len = match ctx.src.weighted(&[3, 4, 3]) {
                0 => ctx.src.below(64),
                1 => ctx.src.pick(&[0usize, 1, 1299, 1300, 1301, 1400]),
                _ => ctx.src.below(1302),
            };
            let mut p = vec![0u8; len];
            fill_stream(len as u64, &mut p);
            let to_client = ctx.src.chance(128);
            if ctx.src.chance(60) {
                let s = netcode_seq_preset(&mut ctx.src);
                if to_client {
                    nw.servers[0].server.verif_set_client_sequence(7, s);
                } else {
                    nw.clients[0].client.verif_set_sequence(s);
                }
            }
            ctx.op(&(len, to_client));
            let from = nw.pool.len();
            let r = if to_client { nw.server_payload(0, 7, &p) } else { nw.client_payload(0, &p) };
            match (r, len <= 1300) {
                (Ok(_), true) => {}
                (Err(e), true) => return Err(Fail::new("netcode_refused_payload", format!("generate_payload_packet refused a payload of {len} bytes (limit 1300): {e}"))),
                (Ok(_), false) => return Err(Fail::new("netcode_accepted_oversize", format!("generate_payload_packet accepted a payload of {len} bytes (limit 1300)"))),
                (Err(_), false) => {}
            }
            check_pool_sizes(&nw, from)?;
            if len >= 1299 {
                ctx.label("payload_at_limit");
            }
        }
        // keep-alives and disconnects with wide sequences
        let from = nw.pool.len();
        for _ in 0..4 {
            nw.now += Duration::from_millis(300);
            nw.server_advance(0, Duration::from_millis(300));
            let _ = nw.server_update_client(0, 7);
            let _ = nw.client_update(0, Duration::from_millis(300));
        }
        let _ = nw.client_disconnect(0);
        let _ = nw.server_disconnect(0, 7);
        check_pool_sizes(&nw, from)?;
        ctx.label("netcode_case");
        if ctx.has("payload_at_limit") {
            ctx.nontrivial = true;
        }
        Ok(())
    }
}

/// Small-scope enumeration of one shape the random histories reach only rarely: a reliable message with an id just below a varint
/// width boundary (64, 16384, 2^30) stays unacknowledged because its packet was lost, the messages after it are acknowledged (so the
/// sender's unacknowledged set has a hole), and in the tick in which the old message is due again a burst of tiny messages with ids
/// above the boundary is queued on the same channel. Every packet must fit and serialise; afterwards everything is obtained.
fn hole_at_width_boundary(index: u64, ctx: &mut Ctx) -> Outcome {
    let boundary = [64u64, 16384, 1 << 30][(index % 3) as usize];
    // how far below the boundary the lost message sits; the messages between it and the boundary are acknowledged
    let gap = [1u64, 2, 60, 400, 1500][((index / 3) % 5) as usize].min(boundary - 1);
    let burst = [50usize, 130, 300, 1200][((index / 15) % 4) as usize];
    let tiny = [0usize, 1, 10][((index / 60) % 3) as usize];
    let kind = [Kind::Ordered, Kind::Unordered][((index / 180) % 2) as usize];
    ctx.op(&("hole_at_width_boundary", boundary, gap, burst, tiny, kind));
    let chan = vec![Chan { id: 0, kind, max_mem: 5_000_000, resend_ms: 100 }];
    let cfg = WorldCfg { bytes_per_tick: 60_000, s2c: vec![], c2s: chan, n_clients: 1, id_scheme: 0 };
    let mut w = World::new(cfg, Oracles { sizes: true, content: true, ..Default::default() });
    w.prompt_drain = true;
    let d = Dir { client: 0, to_client: false };
    let base = boundary - gap;
    w.dirs[d.idx()].chans.get_mut(&0).unwrap().id_base = base;
    w.clients[0].verif_set_next_send_message_id(0, base);
    w.server.verif_connection_mut(client_id(0)).unwrap().verif_set_next_receive_message_id(0, base);
    // the message below the boundary: its packet is lost
    w.send(d, 0, 10, true, 0)?;
    w.advance(20);
    let _lost = w.flush(d)?;
    // the messages up to the boundary and five above it arrive and are acknowledged
    let between = gap as usize - 1 + 5;
    for _ in 0..between {
        w.send(d, 0, 10, true, 0)?;
    }
    w.advance(20);
    for dir in [d, d.rev()] {
        for pid in w.flush(dir)? {
            w.enqueue(pid, 0);
        }
        w.deliver_due(dir, None)?;
        w.drain_all(dir)?;
    }
    // the burst, queued in the tick in which the old messages are due again
    for _ in 0..burst {
        w.send(d, 0, tiny, true, 0)?;
    }
    for tick in 0..40 {
        w.advance(100);
        for dir in [d, d.rev()] {
            for pid in w.flush(dir)? {
                w.enqueue(pid, 0);
            }
            w.deliver_due(dir, None)?;
            w.drain_all(dir)?;
        }
        if let Some(r) = w.sender_reason(d).or(w.receiver_reason(d)) {
            return Err(Fail::new("boundary_burst_disconnected", format!("the connection was disconnected ({r:?}) on a loss-free network while a burst of {burst} messages of {tiny} bytes followed an unacknowledged message below id {boundary} (tick {tick})")));
        }
    }
    let total = 1 + between + burst;
    let got = w.dirs[d.idx()].chans[&0].msgs.iter().filter(|m| m.obtained == 1).count();
    if got != total {
        return Err(Fail::new("boundary_burst_incomplete", format!("{got} of {total} reliable messages obtained exactly once 40 loss-free ticks after the burst around id {boundary}")));
    }
    ctx.label("hole_at_width_boundary");
    ctx.nontrivial = true;
    Ok(())
}

impl Property for C13 {
    fn id(&self) -> &'static str {
        "C13"
    }
    fn level(&self) -> &'static str {
        "exploration"
    }
    fn rule(&self) -> String {
        "Cases: (a) renet pair with counter presets (hooks) on packet sequences, reliable message ids and unreliable sliced ids at varint width boundaries (62/63, 16382/16383, 2^30-2/2^30-1, 2^40, 2^62-2000000), message lengths 1185-1201 and 1201-1320 (a little above one slice, around what would still fit one carrier) mixed with bursts of 50-2000 messages of 0-8 bytes in one tick, sliced messages, and receive patterns that maximise the ack list (every other packet lost, descending arrival, sequence jumps of 2^14 / 2^31 between packets), under the generic fault driver; every renet packet emitted is also passed through generate_payload_packet of a connected netcode pair whose sequences are preset to every byte width; (b) netcode pair: payload lengths 0..1300, 1301, 1400, sequences of every width, keep-alive / disconnect / handshake datagrams. Enumerated besides (360 histories): a reliable message 1-1500 ids below id 64 / 16384 / 2^30 stays unacknowledged while the later ones up to and beyond the boundary are acknowledged, then 50-1200 messages of 0-10 bytes with ids above the boundary are queued in the tick in which it is due again. Oracles: every get_packets_to_send element <= 1300 bytes, no PacketSerialization disconnect, generate_payload_packet never refuses a renet packet nor a payload <= 1300 and refuses larger ones, every netcode datagram <= 1400. Non-trivial: an 8-byte varint id or sequence together with a packet filled by >= 100 tiny messages, or an ack packet with >= 60 ranges, or a payload at the 1300-byte limit. Distinct = hash of the decoded operation trace.".into()
    }
    fn assumptions(&self) -> Vec<String> {
        vec!["counter presets stand for long-running sessions (2^62 packets cannot be sent in a test); values stay below 2^62-1, the varint limit".into()]
    }
    fn pbt(&self, tier: Tier) -> PbtCfg {
        PbtCfg { cases: tier.pick(2_500, 10_000), max_len: tier.pick(1500, 3000), shrink_ms: 120_000 }
    }
    fn required_labels(&self) -> Vec<&'static str> {
        vec!["wide_varint", "full_packet_tiny_messages", "ack_60_ranges", "renet_packet_near_limit", "payload_at_limit", "netcode_case", "gap_burst", "descending_arrival", "tiny_burst", "just_above_one_slice", "hole_at_width_boundary"]
    }
    fn enums(&self, _tier: Tier) -> Vec<(&'static str, u64)> {
        vec![("hole_at_width_boundary", 360)]
    }
    fn run_enum(&self, _name: &str, index: u64, ctx: &mut Ctx) -> Outcome {
        hole_at_width_boundary(index, ctx)
    }
    fn run_choices(&self, ctx: &mut Ctx) -> Outcome {
        if ctx.src.chance(50) {
            ctx.op(&"netcode");
            self.netcode_case(ctx)
        } else {
            self.renet_case(ctx)
        }
    }
}
